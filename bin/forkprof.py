import sys, json, collections, traceback, os
sys.path.insert(0,'/verif')
os.environ["PYTHONPATH"]="/verif"
from vlib import ctx, chpatch
import importlib
modname, sub, secs = sys.argv[1], sys.argv[2], float(sys.argv[3])
extra = json.loads(sys.argv[4]) if len(sys.argv) > 4 else {}
m = importlib.import_module("obligations."+modname)
o=[x for x in m.obligations("quick") if sub in x.id][0]
ctx.PARAMS.update(o.params); ctx.PARAMS.update(extra)
from crosshair.statespace import StateSpace
from crosshair.core import analyze_function, run_checkables
from crosshair.options import AnalysisOptionSet
from crosshair.tracers import NoTracing
cnt=collections.Counter()
orig=StateSpace.choose_possible
def cp(self, expr, *a, **k):
    with NoTracing():
        st=traceback.extract_stack()
        fr=[f for f in st if 'crosshair' not in f.filename and 'forkprof' not in f.filename]
        key=" <- ".join(f"{os.path.basename(f.filename)}:{f.lineno}:{f.name}" for f in fr[-3:][::-1])
        cnt[key]+=1
    return orig(self, expr, *a, **k)
StateSpace.choose_possible=cp
opts=AnalysisOptionSet(per_condition_timeout=secs, per_path_timeout=secs, report_all=True, max_uninteresting_iterations=10**9)
f=getattr(m,o.func)
msgs=list(run_checkables(analyze_function(f,opts)))
print([ (x.state, x.message[:100]) for x in msgs])
for k,v in cnt.most_common(25): print(v,k)
