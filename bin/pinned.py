#!/venv/bin/python
"""usage: bin/pinned.py <worktree>   -- runs the whole test suite in <worktree> and reports which of the 88 pinned tests did not pass"""
import sys, json, subprocess, os, tempfile, xml.etree.ElementTree as ET
wt = os.path.abspath(sys.argv[1])
base = json.load(open("/root/.vp/BASELINE.json"))
want = set(base["stable_pass"])
fd, xmlf = tempfile.mkstemp(suffix=".xml"); os.close(fd)
env = dict(os.environ); env.pop("PYTHONPATH", None)
p = subprocess.run(["/venv/bin/python", "-m", "pytest", "-q", "-p", "no:cacheprovider", "--timeout=900", "--continue-on-collection-errors", "--junitxml=" + xmlf], cwd=wt, env=env, capture_output=True, text=True)
passed = set()
for tc in ET.parse(xmlf).getroot().iter("testcase"):
    if not any(c.tag in ("failure", "error", "skipped") for c in tc):
        passed.add(tc.get("classname") + "::" + tc.get("name"))
os.unlink(xmlf)
missing = sorted(want - passed)
print(f"pinned passing: {len(want & passed)}/88")
for m in missing: print("NOT PASSING:", m)
sys.exit(1 if missing else 0)
