"""C01 - the interpreter evaluates expressions and assignments exactly like Python.

Differential symbolic execution: every template is a straight-line program with holes a,b,c,d (ints), p,q (bools); it runs on the SAME
symbolic values under the real AstEval and under CPython's exec; final variables, the tracer's event log and the exception type must agree
for every value of the holes (so IndexError / ZeroDivisionError / short-circuit / empty-iterable paths are decided by the solver).
"""
from vlib import ctx
from vlib.ctx import P, verdict, detail
from vlib.obl import Obl
from vlib.base import symbolic_mode
from vlib.diffexec import agree

LEVEL = "translation_validation"
EXPLANATION = ("each generated program is validated against CPython for all values of its symbolic inputs: both interpreters are executed symbolically (CrossHair/z3) on the same "
               "proxies; equality of results, side-effect order and exception type is the postcondition on every path")
BOUNDS = {"quick": "holes a,b,c,d in [-6, 6], p,q bool; one obligation per template (see coverage.obligation_list)", "thorough": "holes in [-40, 40]; plus nested combinations"}
OUTSIDE = "programs other than the enumerated templates; object identity of freshly built containers; repr of floats (floats are reals in the solver)"
ASSUMPTIONS = ["Python floats are reals in the solver", "the tracer t(i, v) is a native function: its call goes through AstEval.call_func on one side and a plain call on the other"]

T = {}


def tm(name, src="", known=""):
    T[name] = (src, known)


# ---- binary operators x operand kinds
for opn, op in [("add", "+"), ("sub", "-"), ("mul", "*"), ("div", "/"), ("floordiv", "//"), ("mod", "%"), ("pow", "**"), ("lshift", "<<"), ("rshift", ">>"),
                ("and", "&"), ("or", "|"), ("xor", "^")]:
    tm(f"bin.{opn}.int", f"r = t(1, a) {op} t(2, b)")
    tm(f"bin.{opn}.mixed", f"r = [a {op} 2.5, p {op} b, (a {op} b) {op} c]" if opn not in ("lshift", "rshift", "and", "or", "xor", "pow") else f"r = [p {op} q, (a {op} b) {op} (c if c > 0 else 1), a {op} p]")
    tm(f"bin.{opn}.illtyped", f"x = 'ab'\nr = 0\ntry:\n    r = t(1, x) {op} t(2, a)\nexcept TypeError:\n    r = 'TE'\ns = 0\ntry:\n    s = None {op} b\nexcept TypeError:\n    s = 'TE'")
tm("bin.seq", "r = [ 'ab' + 'c', 'ab' * (a % 3), [a, b] + [c], [a] * (b % 3), (a, b) + (c,), {a, b} | {c}, {a, b} & {b, c}, {a, b} - {b}, {a, b} ^ {c}, {'x': a} | {'y': b}]")
tm("bin.nested_order", "r = (t(1, a) + t(2, b)) * (t(3, c) - t(4, d)) + t(5, a) % (t(6, b) if b else 1)")
# ---- unary
tm("un.int", "r = [-t(1, a), +t(2, b), ~t(3, c), not t(4, d), not p, -p, ~q]")
tm("un.plus_illtyped", "try:\n    r = +'s'\nexcept TypeError:\n    r = 'TE'")
tm("un.illtyped", "r = []\nfor f in ['-', '~']:\n    try:\n        r += [eval(f + \"'s'\")]\n    except TypeError:\n        r += ['TE']")
# ---- comparisons
for opn, op in [("eq", "=="), ("ne", "!="), ("lt", "<"), ("le", "<="), ("gt", ">"), ("ge", ">=")]:
    tm(f"cmp.{opn}", f"r = t(1, a) {op} t(2, b)\ns = [a {op} 2.5, p {op} q, 'ab' {op} 'b', [a] {op} [b], (a, b) {op} (c, d)]")
tm("cmp.is", "x = [a]\ny = x\nr = [x is y, x is not y, x is [a], None is None, a is None, p is True if p else p is False]")
tm("cmp.in", "r = [a in [b, c], a not in (b, c), a in {b, c}, a in {b: 1}, 'b' in 'abc', a in range(b, c)]")
tm("cmp.in_illtyped", "r = 0\ntry:\n    r = a in b\nexcept TypeError:\n    r = 'TE'")
tm("cmp.illtyped", "r = 0\ntry:\n    r = t(1, a) < t(2, 's')\nexcept TypeError:\n    r = 'TE'\ns = 0\ntry:\n    s = None >= a\nexcept TypeError:\n    s = 'TE'")
tm("cmp.chain2", "r = t(1, a) < t(2, b) < t(3, c)")
tm("cmp.chain2_values", "r = a < b <= c\ns = a == b == c\nu = a < b > c")
tm("cmp.chain3", "r = t(1, a) <= t(2, b) != t(3, c) > t(4, d)")
tm("cmp.chain_mixed", "r = t(1, a) in [t(2, b)] == t(3, p)")
# ---- boolean operators, conditional expression
tm("bool.and_or", "r = t(1, a) or t(2, b) and t(3, c)\ns = t(4, a) and t(5, b) or t(6, c)")
tm("bool.values", "r = [a and b, a or b, a or [] or 'x', p and q or not p, not (a and b), a and None]")
tm("bool.three", "r = t(1, a) and t(2, b) and t(3, c)\ns = t(4, a) or t(5, b) or t(6, c)")
tm("ifexp", "r = t(1, a) if t(2, p) else t(3, b)\ns = (a if p else b) if q else (c if a > b else d)")
# ---- subscripts and slices
tm("sub.load", "x = [10, 11, 12, 13]\nr = x[t(1, a)]")
tm("sub.load_kinds", "r = ['abcd'[a], (10, 11, 12)[b]]")
tm("sub.dict", "x = {0: 'z', 1: 'o', 'k': 'v'}\nr = x[t(1, a)]")
tm("sub.nested", "x = [[1, 2], [3, 4]]\nr = x[t(1, a)][t(2, b)]")
tm("slice.load", "x = [10, 11, 12, 13, 14]\nr = x[t(1, a):t(2, b)]\ns = x[a:]\nu = x[:b]\nv = x[:]")
tm("slice.step", "x = [10, 11, 12, 13, 14]\nr = x[t(1, a):t(2, b):t(3, c)]")
tm("slice.str", "x = 'abcdef'\nr = x[a:b]\ns = x[::-1]\nu = x[a::2]")
tm("sub.store", "x = [10, 11, 12, 13]\nx[t(1, a)] = t(2, b)\nr = x")
tm("sub.store_dict", "x = {1: 1}\nx[t(1, a)] = t(2, b)\nx[t(3, c)] = t(4, d)\nr = x")
tm("slice.store", "x = [10, 11, 12, 13]\nx[a:b] = [c, d]\nr = x")
tm("slice.store_step", "x = [10, 11, 12, 13, 14, 15]\ntry:\n    x[a:b:2] = [c]\nexcept ValueError:\n    x = 'VE'\nr = x")
tm("sub.aug", "x = [10, 11, 12, 13]\nx[t(1, a)] += t(2, b)\nr = x", known="C01.augsub")
tm("sub.aug_values", "x = [10, 11, 12, 13]\nx[a] += b\nx[c] *= 2\ny = {'k': a}\ny['k'] -= b\nr = (x, y)")
tm("sub.aug_missing", "y = {}\ntry:\n    y[a] += 1\n    r = y\nexcept KeyError:\n    r = 'KE'")
tm("sub.del", "x = [10, 11, 12, 13]\ndel x[t(1, a)]\nr = x")
tm("sub.del_slice", "x = [10, 11, 12, 13, 14]\ndel x[a:b]\nr = x\ny = {1: 1, 2: 2}\ndel y[c]\n")
# ---- attributes
tm("attr.store", "class C:\n    pass\no = C()\no.v = t(1, a)\no.w = o.v + b\nr = (o.v, o.w)")
tm("attr.aug", "class C:\n    pass\no = C()\no.v = a\no.v += t(1, b)\no.v *= 2\nr = o.v")
tm("attr.aug_once", "class C:\n    pass\no = C()\no.v = a\ndef g():\n    ev(7)\n    return o\ng().v += t(1, b)\nr = o.v", known="C01.augattr")
tm("attr.del", known="C01.del_attr", src="class C:\n    pass\no = C()\no.v = a\ndel o.v\nr = hasattr(o, 'v')\ntry:\n    o.zz\nexcept AttributeError:\n    s = 'AE'")
tm("attr.nested", "class C:\n    pass\no = C()\no.i = C()\no.i.v = [a, b]\no.i.v[0] += c\nr = o.i.v")
# ---- calls
tm("call.positional", "def f(x, y):\n    return x - y\nr = f(t(1, a), t(2, b))")
tm("call.order", "def f(*x, **k):\n    return (x, [(n, k[n]) for n in k])\nr = f(t(1, a), *[t(2, b)], k1=t(3, c), **{'k2': t(4, d)})")
tm("call.kw_then_star", "def f(*x, **k):\n    return (x, [(n, k[n]) for n in k])\nr = f(k1=t(1, a), *[t(2, b)])")
tm("call.values", "def f(*x, **k):\n    return (x, [(n, k[n]) for n in k])\nr = f(a, *[b, c], *(d,), k1=a, **{'k2': b}, **{'k3': c})")
tm("call.kwdup", "def f(**k):\n    return k\ntry:\n    r = f(x=a, **{'x': b})\nexcept TypeError:\n    r = 'TE'")
# (AstEval.call_func renders every argument with str() for a debug message; C-level repr of a container holding symbolic values fails under
#  CrossHair, so templates pass only scalars to calls)
tm("call.builtins", "r = [len('ab' * (a % 3)), max(a, b), min(a, b, c), abs(a), list(range(a % 4)), divmod(a, b if b else 1), int('7') + a, str(a), bool(a), isinstance(a, int), pow(a, 2), round(a / 2) if a % 2 == 0 else 0]")
tm("call.method", "x = [c, a, b]\nx.append(t(1, d))\nx.sort()\nr = x\ns = 'a-b'.split('-') + ['x'.join(['p', 'q'])]\nu = {'k': a}.get('k', b)")
tm("call.notcallable", "try:\n    r = a(1)\nexcept TypeError:\n    r = 'TE'")
tm("call.nested", "def f(x):\n    return x * 2\ndef g(x, y=1):\n    return x + y\nr = g(f(t(1, a)), y=f(t(2, b)))")
# ---- displays, starred
tm("disp.list_tuple_set", "r = [t(1, a), t(2, b), t(3, c)]\ns = (t(4, a), t(5, b))\nu = {t(6, a), t(7, b)}")
tm("disp.dict_order", "r = {t(1, a): t(2, b), t(3, c): t(4, d)}")
tm("disp.dict_values", "r = {a: b, c: d, 'k': [a]}\ns = {**{'x': a}, 'y': b, **{'x': c}}")
tm("disp.starred", "x = [a, b]\nr = [*x, c, *x]\ns = (*x, d)\nu = {*x, c}\nv = [*range(a % 3), *'ab']")
tm("disp.starred_illtyped", "try:\n    r = [*a]\nexcept TypeError:\n    r = 'TE'\ntry:\n    s = {**[a]}\nexcept TypeError:\n    s = 'TE'")
# ---- comprehensions
tm("comp.list", "r = [x * a for x in range(b % 5) if x != c]")
tm("comp.nested", "r = [(x, y) for x in range(a % 3) for y in range(x + 1) if (x + y) % 2 == b % 2]")
tm("comp.set_dict", "r = {x % 3 for x in [a, b, c]}\ns = {x: x * a for x in range(b % 4)}\nu = {k: v for k, v in [(a, b), (c, d)]}")
tm("comp.scope", "i = 99\nr = [i for i in range(a % 3)]\ns = i\nj = 5\nu = [j + k for k in range(2)]")
tm("comp.scope_none", "x = None\nr = [x for x in [a, b]]\ns = x")
tm("comp.order", "r = [t(1, x) + t(2, a) for x in [t(3, b), t(4, c)] if t(5, p)]")
tm("comp.walrus", "r = [y for x in range(a % 4) if (y := x * 2) > b]\ns = y if a % 4 else 'unset'")
tm("comp.tuple_target", "r = [x + y for x, y in [(a, b), (c, d)]]\ns = {x: y for (x, y) in [(a, b)]}")
tm("comp.empty", "r = [x for x in []]\ns = {x for x in range(0)}\nu = {x: 1 for x in ()}")
# ---- f-strings
tm("fstr.plain", "r = f'{a} and {b + c}!'\ns = f'{a}' f'{b}' 'lit'")
tm("fstr.spec", "r = f'{a:>5}|{b:03d}|{a:+}|{c:x}'")
tm("fstr.nested_spec", "w = 5\nr = f'{a:{w}}|{b:>{w}}'")
tm("fstr.spec_order", "r = f'{t(1, a):{t(2, 4)}}'")
tm("fstr.conv", "x = 'q'\nr = f'{x!r}|{x!s}'")
# (f'{y!a}' and f'{7!r:>4}' make CrossHair's own f-string interception raise SystemError on the CPython side: not usable as templates)
tm("fstr.conv_list", "x = 'q'\nr = f'{[x]!r}'")
tm("fstr.conv_int", "r = f'{a!r}' == repr(a)\ns = f'{a!s}' == str(a)")
tm("fstr.expr", "x = [a, b]\nr = f'{x[0]}{len(\"abc\")}{a if p else b}{\"s\" * 2}'")
# ---- named expression
tm("walrus", "r = (y := t(1, a) + 1) * y\ns = y\nif (z := b) > 0:\n    u = z\nelse:\n    u = -z")
# ---- assignments
tm("assign.chain", "x = y = t(1, a)\nr = (x, y)\nu = v = [a]\nu.append(b)\ns = v")
tm("assign.unpack", "x, y = t(1, a), t(2, b)\nx, y = y, x\nr = (x, y)\n(m, n), o = (a, b), c\ns = (m, n, o)")
tm("assign.star", "lst = [1, 2, 3, 4][:a % 5]\ntry:\n    x, *y, z = lst\n    r = (x, y, z)\nexcept ValueError:\n    r = 'VE'")
tm("assign.star_first_last", "*x, y = [a, b, c]\nm, *n = [d]\nr = (x, y, m, n)")
tm("assign.unpack_err", "try:\n    x, y = [a, b, c][:d % 4]\n    r = (x, y)\nexcept ValueError:\n    r = 'VE'\ntry:\n    m, n = a\nexcept TypeError:\n    s = 'TE'")
tm("assign.aug_all", "x = a\nx += b\nx -= 1\nx *= 2\nx //= 3\nx %= 7\nx **= 2\nx <<= 1\nx >>= 1\nx &= 13\nx |= 2\nx ^= 5\nr = x\ny = a\ny /= 2\ns = y")
tm("assign.aug_inplace", "x = [a]\ny = x\nx += [b]\nr = (x, y, x is y)", known="C01.aug_inplace")
tm("assign.aug_seq", "s = 'p'\ns += 'q' * (c % 3)\nu = (a,)\nv = u\nu += (b,)\nr = (u, v)")
tm("assign.ann", "x: int = t(1, a)\ny: 'str'\nz: list = [b]\nr = (x, z)")
tm("assign.del", "x = a\ny = b\ndel x\nr = 'x' in dir() if False else y\ntry:\n    x\n    s = 'defined'\nexcept NameError:\n    s = 'NE'")
tm("assign.del_multi", "x = a\ny = b\nz = c\ndel x, y\ntry:\n    del x\n    r = 0\nexcept NameError:\n    r = 'NE'\ns = z")
tm("assign.global_aug", "x = a\ndef f():\n    global x\n    x += t(1, b)\nf()\nr = x")
tm("assign.order", "x = [0, 0, 0, 0]\nx[t(1, a % 4)] = t(2, b)\ni = 0\ni, x[i] = 1, 9\nr = (x, i)")
# ---- literals
tm("lit.kinds", "r = [1, 2.5, True, None, 's', b'by', 1j.imag, [a], (a,), {a: 1}, {a}, ..., 0x10, 1_000, 'a' 'b']")


HEAVY = {"disp.dict_order", "bin.seq", "bin.nested_order", "cmp.in", "bool.three", "ifexp", "slice.step", "sub.store_dict", "sub.del_slice", "disp.starred", "comp.set_dict",
         "fstr.plain", "fstr.spec", "fstr.expr", "fstr.nested_spec", "assign.unpack", "call.values", "call.builtins", "disp.dict_values", "disp.list_tuple_set",
         "comp.nested", "comp.tuple_target", "assign.aug_all", "slice.store_step", "slice.store", "lit.kinds", "cmp.is", "sub.dict", "un.int", "bool.values"}


def diff(a: int, b: int, c: int, d: int, p: bool, q: bool) -> bool:
    """
    pre: -P("bound") <= a <= P("bound") and -P("bound") <= b <= P("bound") and -P("bound") <= c <= P("bound") and -P("bound") <= d <= P("bound")
    post: _
    """
    src = T[P("tmpl")][0]
    ok, x, y = agree(src, {"a": a, "b": b, "c": c, "d": d, "p": p, "q": q})
    import os
    if not symbolic_mode() or os.environ.get("VERIF_DEBUG"):
        detail(src=src, pyscript={"exc": x[0], "vars": x[1], "log": x[2]}, cpython={"exc": y[0], "vars": y[1], "log": y[2]})
    return verdict(ok, True)


def classify_log_only(args, detail_, info):
    """accept only a pure evaluation-order / multiplicity difference: same exception type, same variables, different tracer log"""
    x, y = detail_.get("pyscript", {}), detail_.get("cpython", {})
    return x.get("exc") == y.get("exc") and x.get("vars") == y.get("vars") and x.get("log") != y.get("log")


def classify_any(args, detail_, info):
    return True


def count_programs(obls):
    return len({o.params.get("tmpl") for o in obls})


def obligations(tier):
    o = []
    for name, (src, known) in T.items():
        bound = 6 if tier == "quick" else 40
        if name in HEAVY or name.endswith(".mixed"):
            bound = 2 if tier == "quick" else 3        # templates whose values get hashed / formatted (realised): small domain, still exhaustive over it
        o.append(Obl("C01." + name, __name__, "diff", {"tmpl": name, "bound": bound}, timeout=300 if tier == "quick" else 900, twin=False,
                     desc="pyscript and CPython agree on final variables, side-effect order and exception type for: " + src.replace("\n", " ; ")[:160],
                     sym=f"a,b,c,d in [-{bound},{bound}] (symbolic ints), p,q symbolic bools", known=known,
                     classifier=("classify_log_only" if known in ("C01.chain", "C01.dict", "C01.callorder", "C01.augsub", "C01.augattr") else "classify_any") if known else ""))
    return o
    return o
