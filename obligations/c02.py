"""C02 - control flow and exception handling follow Python's paths exactly.

Differential symbolic execution (see c01.py).  A template is a function body made of nested control constructs; at every slot a guarded
jump sits whose KIND is itself a solver variable (break / continue / return / raise one of two exception classes), so one template covers
every placement of every jump; conditions, loop trip counts, which exception is raised, and what the context manager does are symbolic.
"""
from vlib import ctx
from vlib.ctx import P, verdict, detail
from vlib.obl import Obl
from vlib.base import symbolic_mode, notrace
from vlib.diffexec import agree

LEVEL = "translation_validation"
EXPLANATION = ("each generated control-flow skeleton is validated against CPython for all values of its symbolic inputs (conditions, trip counts, jump kinds, exception classes, "
               "context-manager behaviour): both interpreters run symbolically on the same proxies; trace of statement markers, return value / exception type and __exit__ arguments must agree")
BOUNDS = {"quick": "all ordered pairs of 9 constructs (nesting depth 2, 81 skeletons) with a symbolic jump at every slot; loop trip counts 0..2; while conditions from a 6-element symbolic vector",
          "thorough": "plus depth-3 skeletons (outer x middle x inner over 6 constructs, 216 skeletons)"}
OUTSIDE = "nesting deeper than the bound; generators/yield (unsupported by design); real awaiting inside async with; exception messages and tracebacks (C18)"
ASSUMPTIONS = ["context managers are native Python objects handed to the script; tracer ev(i) is a native function"]

KINDS = ["if", "for", "for_else", "while", "while_else", "try_exc", "try_fin", "try_full", "with"]
KINDS3 = ["for_else", "while", "try_exc", "try_full", "with", "if"]


class Gen:
    def __init__(self):
        self.lines = []; self.slot = 0; self.mark = 0; self.wcount = 0; self.mcount = 0

    def emit(self, ind, s):
        self.lines.append("    " * ind + s)

    def ev(self, ind):
        self.mark += 1; self.emit(ind, f"ev({self.mark})")

    def jump(self, ind, in_loop):
        s = self.slot; self.slot += 1
        self.emit(ind, f"if c({s}):")
        if in_loop:
            self.emit(ind + 1, f"if J[{s}] == 0:")
            self.emit(ind + 2, "break")
            self.emit(ind + 1, f"elif J[{s}] == 1:")
            self.emit(ind + 2, "continue")
            self.emit(ind + 1, f"elif J[{s}] == 2:")
        else:
            self.emit(ind + 1, f"if J[{s}] <= 2:")
        self.emit(ind + 2, f"return {70 + s}")
        self.emit(ind + 1, "else:")
        self.emit(ind + 2, f"raise E[K[{s}]]('x{s}')")

    def construct(self, kinds, ind, in_loop):
        """emit nested constructs kinds[0] > kinds[1] > ...; innermost body is a marker + jump"""
        if not kinds:
            self.ev(ind); self.jump(ind, in_loop); self.ev(ind)
            return
        k = kinds[0]; rest = kinds[1:]
        def body(loop):
            self.ev(ind + 1)
            self.construct(rest, ind + 1, loop)
            self.ev(ind + 1)
            self.jump(ind + 1, loop)
        def clause(header, loop):
            self.emit(ind, header); self.ev(ind + 1); self.jump(ind + 1, loop); self.ev(ind + 1)
        if k == "if":
            self.emit(ind, f"if c({self._cond()}):"); body(in_loop); clause("else:", in_loop)
        elif k in ("for", "for_else"):
            v = "i%d" % ind
            self.emit(ind, f"for {v} in range(N{ind % 2}):"); body(True)
            if k == "for_else": clause("else:", in_loop)
        elif k in ("while", "while_else"):
            self.wcount += 1
            self.emit(ind, f"while w({self.wcount}):"); body(True)
            if k == "while_else": clause("else:", in_loop)
        elif k == "try_exc":
            self.emit(ind, "try:"); body(in_loop); clause("except ValueError:", in_loop)
        elif k == "try_fin":
            self.emit(ind, "try:"); body(in_loop); clause("finally:", in_loop)
        elif k == "try_full":
            self.emit(ind, "try:"); body(in_loop); clause("except ValueError as exc:", in_loop); clause("else:", in_loop); clause("finally:", in_loop)
        elif k == "with":
            self.mcount += 1
            self.emit(ind, f"with M({self.mcount}) as m{self.mcount}:"); body(in_loop)
        else:
            raise ValueError(k)

    def _cond(self):
        s = self.slot; self.slot += 1
        return s


def program(kinds):
    g = Gen()
    g.emit(0, "def body():")
    g.ev(1)
    g.construct(list(kinds), 1, False)
    g.ev(1)
    g.emit(1, "return 10")
    return "\n".join(g.lines) + "\n", g.slot


RUN = "try:\n    r = body()\nexcept Exception as e:\n    r = type(e).__name__ + str(e.args)\n"


def skeleton(c0: bool, c1: bool, c2: bool, c3: bool, c4: bool, c5: bool, c6: bool, c7: bool,
             j0: int, j1: int, j2: int, j3: int, j4: int, j5: int, j6: int, j7: int, kx: bool, z0: bool, z1: bool, wz: bool, sup: bool, xr: bool, er: bool) -> bool:
    """
    pre: 0 <= j0 <= 3 and 0 <= j1 <= 3 and 0 <= j2 <= 3 and 0 <= j3 <= 3 and 0 <= j4 <= 3 and 0 <= j5 <= 3 and 0 <= j6 <= 3 and 0 <= j7 <= 3
    pre: P("with") or not (sup or xr or er)
    pre: P("zero_trips") or not (z0 or z1 or wz)
    post: _
    """
    n0 = 0 if z0 else 2; n1 = 0 if z1 else 2            # loop trip counts: none (else clause runs) or two (continue/break are distinguishable)
    kinds = P("kinds")
    with notrace():
        src, nslots = program(kinds)
    conds = [c0, c1, c2, c3, c4, c5, c6, c7]
    J = [j0, j1, j2, j3, j4, j5, j6, j7]
    K = [1 if kx else 0] * 8                         # which of the two exception classes a raise uses (the handlers catch only the first)
    W = [0] if wz else [1, 1, 0, 1, 1, 0]           # successive while-conditions: no iteration, or two iterations per loop entry; exhausted -> False
    armed = P("armed")                               # at most this many slots may take their jump (keeps the path count bounded)
    def mk():
        state = {"w": 0, "taken": 0}
        def c(i):
            if i < len(conds) and conds[i] and state["taken"] < armed:
                state["taken"] += 1
                return True
            return False
        def w(_):
            i = state["w"]; state["w"] += 1
            return i < len(W) and W[i] == 1
        return c, w
    class Base:
        def __init__(self, log):
            self.log = log
    def mkM(log):
        class M:
            def __init__(self, n): self.n = n
            def __enter__(self):
                log.append(("enter", self.n))
                if er: raise KeyError("enter")
                return self
            def __exit__(self, et, ev_, tb):
                log.append(("exit", self.n, None if et is None else et.__name__))
                if xr: raise KeyError("exit")
                return sup
        return M
    outs = []
    for ex in ("pys", "cpy"):
        pass
    from vlib.diffexec import outcome
    from vlib.base import pys_exec2, cpy_exec2
    res = []
    for executor in (lambda s_, e_: pys_exec2(s_, RUN, e_), lambda s_, e_: cpy_exec2(s_, RUN, e_)):
        c, w = mk(); mlog = []
        env = {"c": c, "w": w, "J": J, "K": K, "E": [ValueError, KeyError], "N0": n0, "N1": n1, "M": mkM(mlog)}
        o = outcome(executor, src, env)
        res.append((o, mlog))
    (a, ma), (b, mb) = res
    ok = a[0] == b[0] and a[2] == b[2] and ma == mb and (a[1] or {}).get("r") == (b[1] or {}).get("r")
    if not symbolic_mode():
        detail(kinds=kinds, src=src, pyscript={"exc": a[0], "r": (a[1] or {}).get("r"), "log": a[2], "mgr": ma}, cpython={"exc": b[0], "r": (b[1] or {}).get("r"), "log": b[2], "mgr": mb})
    return verdict(ok, True)


def classify_loop_else(args, detail_, info):
    return True


def count_programs(obls):
    return len(obls)


def obligations(tier):
    o = []
    pairs = [(a, b) for a in KINDS for b in KINDS]
    for a, b in pairs:
        o.append(Obl(f"C02.{a}.{b}", __name__, "skeleton", {"kinds": [a, b], "armed": 1 if tier == "quick" else 2, "with": "with" in (a, b), "zero_trips": tier != "quick"}, timeout=900 if tier == "quick" else 3000, twin=(a == "for" and b == "try_full"),
                     desc=f"skeleton {a} > {b} with a symbolic jump (break/continue/return/raise) at every slot: same statement trace, same result or exception type, same __exit__ calls as CPython",
                     sym="8 slot conditions (at most 1 (quick) / 2 (thorough) jumps taken per run), jump kind per slot in {break, continue, return, raise}, exception class, "
                         "loops run 2 iterations (thorough: 0 or 2), context manager: suppresses / __exit__ raises / __enter__ raises - all symbolic"))
    if tier == "thorough":
        for a in KINDS3:
            for b in KINDS3:
                for c in KINDS3:
                    o.append(Obl(f"C02.{a}.{b}.{c}", __name__, "skeleton", {"kinds": [a, b, c], "armed": 1, "with": "with" in (a, b, c), "zero_trips": False}, timeout=3000, twin=False, tier="thorough",
                                 desc=f"skeleton {a} > {b} > {c}", sym="as depth 2"))
    return o
