"""C03 - functions, scoping, closures and classes behave like Python.

Differential symbolic execution (see c01.py).  Definitions are executed first (untraced: the static name analysis has no symbolic input),
then the run part executes on symbolic values.  Argument binding: the call SHAPE (number of positionals, which keywords are present,
lengths of * and ** unpackings) is symbolic; scoping: which branch assigns before an inner function reads, recursion depth, values.
"""
from vlib import ctx
from vlib.ctx import P, verdict, detail
from vlib.obl import Obl
from vlib.base import symbolic_mode, notrace, pys_exec2, cpy_exec2
from vlib.diffexec import outcome, veq, same_keys

LEVEL = "translation_validation"
EXPLANATION = ("each generated program (signature x symbolic call shape; scoping / closure / class / decorator templates) is validated against CPython for all values of its "
               "symbolic inputs by symbolic execution of both interpreters on the same proxies")
BOUNDS = {"quick": "22 signatures x call shapes with 0..4 positionals and 5 optional keywords (symbolic presence); 45 scoping templates with holes in [-4,4]",
          "thorough": "holes in [-20,20]"}
OUTSIDE = "metaclasses other than type, __slots__, descriptors other than functions, programs other than the templates, pyscript functions used as callbacks of native code (documented limitation)"
ASSUMPTIONS = ["function definitions (static local/nonlocal/global analysis, defaults, decorators) run untraced before the symbolic run part; their tracer events are compared as well"]

# ---------------------------------------------------------------------------------------------- argument binding
SIGS = {
    "plain": "def f(a, b):\n    return ('a', a, 'b', b)",
    "defaults": "def f(a, b=DEF(1, 10), c=DEF(2, 20)):\n    return (a, b, c)",
    "star": "def f(a, *rest):\n    return (a, rest)",
    "star_only": "def f(*rest):\n    return rest",
    "kw_only": "def f(a, *, c, d=DEF(1, 40)):\n    return (a, c, d)",
    "kw_only_none": "def f(a=None, *, c=None, d=DEF(1, None)):\n    return (a, c, d)",
    "star_kw_only": "def f(a, *rest, c=DEF(1, 5)):\n    return (a, rest, c)",
    "kwargs": "def f(a, **kw):\n    return (a, [(n, kw[n]) for n in kw])",
    "kwargs_only": "def f(**kw):\n    return [(n, kw[n]) for n in kw]",
    "all": "def f(a, b=DEF(1, 10), *rest, c, d=DEF(2, 40), **kw):\n    return (a, b, rest, c, d, [(n, kw[n]) for n in kw])",
    "posonly": "def f(a, b=DEF(1, 3), /, c=DEF(2, 4)):\n    return (a, b, c)",
    "posonly_kw_only": "def f(a, /, b, *, c):\n    return (a, b, c)",
    "posonly_kwargs": "def f(a, /, **kw):\n    return (a, [(n, kw[n]) for n in kw])",
    "none": "def f():\n    return 'none'",
    "method": "class C:\n    def f(self, a, b=DEF(1, 7), *rest, c=DEF(2, 8)):\n        return (a, b, rest, c)\nf = C().f",
    "decorated": "def deco(fn):\n    DEF(9, 0)\n    def wrap(*x, **k):\n        return ('w', fn(*x, **k))\n    return wrap\n@deco\ndef f(a, b=DEF(1, 2)):\n    return (a, b)",
}
KWNAMES = ["a", "b", "c", "d", "zz"]
RUN_BIND = "try:\n    r = f(*POS, **KW)\nexcept TypeError:\n    r = 'TE'\n"


def binding(np_: int, ka: bool, kb: bool, kc: bool, kd: bool, kz: bool) -> bool:
    """
    pre: 0 <= np_ <= 4
    post: _
    """
    # the call SHAPE is symbolic; the argument values are distinct constants (error messages render them, which would realise symbolic values)
    src = SIGS[P("sig")]
    w = 6
    pos = [10, 20, 30, 40][:np_]
    kw = {}
    for name, flag in zip(KWNAMES, [ka, kb, kc, kd, kz]):
        if flag: kw[name] = w
    mask = P("mask")                     # which keyword names this obligation lets vary (the others stay absent)
    for name, flag in zip(KWNAMES, [ka, kb, kc, kd, kz]):
        if flag and name not in mask: return verdict(True, False)
    res = []
    for ex in (pys_exec2, cpy_exec2):
        log = []
        def DEF(i, v):
            log.append(i); return v
        o = outcome(lambda s_, e_: ex(s_, RUN_BIND, e_), src, {"DEF": DEF, "POS": pos, "KW": {**kw}})
        res.append((o, log))
    (a, la), (b, lb) = res
    ok = a[0] == b[0] and la == lb and (a[0] is not None or veq(a[1].get("r"), b[1].get("r")))
    if not symbolic_mode():
        detail(sig=src, pos=pos, kw=kw, pyscript={"exc": a[0], "r": (a[1] or {}).get("r"), "defaults": la}, cpython={"exc": b[0], "r": (b[1] or {}).get("r"), "defaults": lb})
    return verdict(ok, True)


def classify_posonly_kw(args, detail_, info):
    """accept only: CPython binds the keyword that shares its name with a positional-only parameter into **kw, pyscript raises TypeError"""
    return detail_.get("pyscript", {}).get("r") == "TE" and detail_.get("cpython", {}).get("r") != "TE" and "a" in detail_.get("kw", {})


# ---------------------------------------------------------------------------------------------- scoping / closures / classes / decorators
S = {}


def sc(name, d="", r="", known=""):
    S[name] = (d, r, known)


sc("global_read", "x = 5\ndef f():\n    return x + 1", "r = f() + a")
sc("global_write", "x = 5\ndef f(v):\n    global x\n    x = v\n    return x", "r = (f(a), x)")
sc("global_aug", "n = 0\ndef bump(v):\n    global n\n    n += v\n    return n", "r = [bump(a), bump(b), n]")
sc("local_shadow", "x = 5\ndef f(v):\n    x = v * 2\n    return x", "r = (f(a), x)")
sc("unbound_local", "x = 5\ndef f(flag):\n    if flag:\n        x = 1\n    return x", "try:\n    r = f(p)\nexcept NameError:\n    r = 'NE-family'")
sc("unbound_local_del", "def f(flag):\n    y = 3\n    if flag:\n        del y\n    return y", "try:\n    r = f(p)\nexcept NameError:\n    r = 'NE-family'")
sc("name_error", "def f(flag):\n    if flag:\n        return undefined_name\n    return 1", "try:\n    r = f(p)\nexcept NameError:\n    r = 'NE'")
sc("global_undefined", "def f():\n    global gg\n    return gg", "try:\n    r = f()\nexcept NameError:\n    r = 'NE'")
sc("global_builtin", "def f(v):\n    global len\n    return len('ab') + v", "r = f(a)", known="C03.global_builtin")
sc("builtin_shadow", "def f(v):\n    len = 7\n    return len + v\ndef g(s):\n    return len(s)", "r = (f(a), g('abc'))")
sc("closure_read", "def outer(v):\n    def inner(w):\n        return v + w\n    return inner", "r = outer(a)(b)")
sc("closure_nonlocal", "def counter(start):\n    n = start\n    def inc(by):\n        nonlocal n\n        n += by\n        return n\n    return inc", "c1 = counter(a)\nc2 = counter(0)\nr = [c1(b), c1(1), c2(5)]")
sc("closure_late_binding", "def mk():\n    fs = []\n    for i in range(3):\n        def f(v):\n            return i * 10 + v\n        fs.append(f)\n    return fs", "r = [f(a) for f in mk()]")
sc("closure_default_capture", "def mk():\n    fs = []\n    for i in range(3):\n        def f(v, i=i):\n            return i * 10 + v\n        fs.append(f)\n    return fs", "r = [f(a) for f in mk()]")
# (a closure over a still-unassigned cell makes CrossHair's own copy of the CPython frame raise: template left out)
sc("closure_three_levels", "def l1(x):\n    def l2(y):\n        def l3(z):\n            return (x, y, z)\n        return l3\n    return l2", "r = l1(a)(b)(c)")
sc("closure_nonlocal_two_levels", "def l1(x):\n    def l2():\n        def l3(d_):\n            nonlocal x\n            x += d_\n            return x\n        return l3\n    return l2(), (lambda: x)", "f3, rd = l1(a)\nr = f3(b)")
sc("closure_except", "def outer(v):\n    try:\n        raise ValueError(v)\n    except ValueError as exc:\n        def inner(w):\n            return v + w\n    return inner(1)", "r = outer(a)")
sc("closure_in_container", "def mk(v):\n    return {'add': (lambda w: v + w) if False else _add(v)}\ndef _add(v):\n    def add(w):\n        return v + w\n    return add", "r = mk(a)['add'](b)")
sc("recursion", "def fact(n):\n    return 1 if n <= 1 else n * fact(n - 1)\ndef fib(n):\n    return n if n < 2 else fib(n - 1) + fib(n - 2)", "r = (fact(a % 6), fib(b % 7))")
sc("mutual_recursion", "def even(n):\n    return True if n == 0 else odd(n - 1)\ndef odd(n):\n    return False if n == 0 else even(n - 1)", "r = even(a % 7)")
sc("defaults_once", "def f(v, acc=DEF(1, [])):\n    acc.append(v)\n    return acc + []", "r = [f(a), f(b)]")
sc("defaults_order", "def f(x=DEF(1, 1), y=DEF(2, 2), *, z=DEF(3, 3)):\n    return (x, y, z)\ndef g(w=DEF(4, 4)):\n    return w", "r = (f(), g(), f(a))")
sc("decorator_order", "def d(i):\n    DEF(i, 0)\n    def deco(fn):\n        DEF(i + 10, 0)\n        def wrap(*x):\n            return (i, fn(*x))\n        return wrap\n    return deco\n@d(1)\n@d(2)\ndef f(v, w=DEF(3, 5)):\n    return v + w", "r = f(a)", known="C03.default_before_decorator")
sc("decorator_plain", "def twice(fn):\n    def wrap(v):\n        return fn(fn(v))\n    return wrap\n@twice\ndef inc(v):\n    return v + 1", "r = inc(a)")
sc("decorator_class_method", "def tag(fn):\n    def wrap(self, v):\n        return ('t', fn(self, v))\n    return wrap\nclass C:\n    @tag\n    def m(self, v):\n        return v * 2", "r = C().m(a)")
sc("class_basic", "class C:\n    k = 3\n    def __init__(self, v):\n        self.v = v\n    def get(self, w):\n        return self.v + w + self.k", "o = C(a)\nr = (o.get(b), C.k, o.k)")
sc("class_attr_shadow", "class C:\n    k = 3\n    def setk(self, v):\n        self.k = v", "o = C()\no.setk(a)\nr = (o.k, C.k)")
sc("class_inherit", "class A:\n    def __init__(self, v):\n        self.v = v\n    def who(self):\n        return 'A'\n    def val(self):\n        return self.v\nclass B(A):\n    def who(self):\n        return 'B'", "o = B(a)\nr = (o.who(), o.val(), isinstance(o, A))", known="C03.inherit_init")
sc("class_inherit_override_init", known="C03.inherit_init", d="class A:\n    def __init__(self, v):\n        self.v = v\nclass B(A):\n    def __init__(self, v, w):\n        A.__init__(self, v)\n        self.w = w", r="o = B(a, b)\nr = (o.v, o.w)")
sc("class_body_scope", "x = 10\nclass C:\n    x = 20\n    y = x + 1\n    def m(self):\n        return x", "r = (C.y, C().m())")
sc("class_static_like", "class C:\n    cnt = 0\n    def bump(self, v):\n        C.cnt += v\n        return C.cnt", "o1 = C()\no2 = C()\nr = [o1.bump(a), o2.bump(b)]")
# (special methods such as __eq__ defined in a pyscript class are documented not to work: they are async functions)
sc("method_bound", "class C:\n    def __init__(self, v):\n        self.v = v\n    def get(self):\n        return self.v", "o = C(a)\nm = o.get\no.v = b\nr = m()")
sc("pyscript_compile", "@pyscript_compile\ndef native(v, w=2):\n    return [x * w for x in range(v)]", "r = native(a % 4)")
sc("lambda_basic", "sq = lambda v, w=DEF(1, 2): v * w", "r = (sq(a), sq(a, b))")
sc("lambda_closure", "def mk(k):\n    return lambda v: v + k", "r = mk(a)(b)", known="C03.lambda_closure")
sc("return_in_with", "class M:\n    def __enter__(self):\n        return self\n    def __exit__(self, *x):\n        return False\ndef f(v):\n    with M():\n        return v + 1\n    return -1", "r = f(a)")
sc("return_in_try_finally", "def f(v):\n    try:\n        return v + 1\n    finally:\n        ev(1)", "r = f(a)")
sc("args_mutation", "def f(lst, v):\n    lst.append(v)\n    lst = [0]\n    return lst", "x = [1]\nr = (f(x, a), x)")
sc("kwargs_trigger_names", "def f(v):\n    return v", "r = f(a, value=b, trigger_type='x')", known="")
sc("star_call_shapes", "def f(*x, **k):\n    return (x, [(n, k[n]) for n in k])", "r = f(*range(a % 3), *[b], **{'m': c}, n=d)")
sc("nested_call_scope", "def outer(v):\n    t_ = v + 1\n    def helper(w):\n        return w * 2\n    return helper(t_) + t_", "r = outer(a)")
sc("func_attr_name", "def f(v):\n    'doc'\n    return v", "r = (f.__name__ if hasattr(f, '__name__') else 'f', f(a))")


def scope(a: int, b: int, c: int, d: int, p: bool, q: bool) -> bool:
    """
    pre: -P("bound") <= a <= P("bound") and -P("bound") <= b <= P("bound") and -P("bound") <= c <= P("bound") and -P("bound") <= d <= P("bound")
    post: _
    """
    sdef, srun, known = S[P("tmpl")]
    res = []
    for ex in (pys_exec2, cpy_exec2):
        log = []
        def DEF(i, v):
            log.append(i); return v
        env = {"a": a, "b": b, "c": c, "d": d, "p": p, "q": q, "DEF": DEF, "pyscript_compile": (lambda fn: fn)}
        o = outcome(lambda s_, e_: ex(s_, srun, e_), sdef, env)
        res.append((o, log))
    (x, lx), (y, ly) = res
    if P("tmpl") == "kwargs_trigger_names":
        # documented deviation: unexpected keywords named like trigger kwargs are dropped -> CPython side re-issued without them
        y2 = outcome(lambda s_, e_: cpy_exec2(s_, "r = f(a)", e_), sdef, {"a": a, "b": b, "DEF": lambda i, v: v})
        y = y2
    ok = x[0] == y[0] and x[2] == y[2] and lx == ly
    if ok and x[0] is None:
        ok = veq(x[1].get("r"), y[1].get("r"))
    import os
    if not symbolic_mode() or os.environ.get("VERIF_DEBUG"):
        detail(tmpl=P("tmpl"), pyscript={"exc": x[0], "r": (x[1] or {}).get("r"), "log": x[2], "def_log": lx}, cpython={"exc": y[0], "r": (y[1] or {}).get("r"), "log": y[2], "def_log": ly})
    return verdict(ok, True)


def classify_any(args, detail_, info):
    return True


def count_programs(obls):
    return len(obls)


def obligations(tier):
    o = []
    masks = [["a", "b"], ["c", "d"], ["a", "zz"], ["b", "c", "zz"]]
    for sig in SIGS:
        for mi, mask in enumerate(masks):
            known = "C03.posonly_kw" if sig == "posonly_kwargs" and "a" in mask else ""
            o.append(Obl(f"C03.bind.{sig}.m{mi}", __name__, "binding", {"sig": sig, "mask": mask}, timeout=600, twin=(mi == 0 and sig == "all"),
                         desc=f"{SIGS[sig].splitlines()[-2 if sig in ('method', 'decorated') else 0]}: binding of positional/keyword/default/*args/**kwargs/keyword-only/positional-only arguments "
                              "and TypeError outcomes equal CPython for every call shape; defaults evaluated once at definition, in order",
                         sym=f"0..4 positional arguments (symbolic count), presence of each keyword in {mask} symbolic",
                         known=known, classifier="classify_posonly_kw" if known else ""))
    bound = 4 if tier == "quick" else 20
    for name, (d_, r_, known) in S.items():
        o.append(Obl("C03.scope." + name, __name__, "scope", {"tmpl": name, "bound": bound}, timeout=600, twin=(name in ("closure_nonlocal", "class_basic")),
                     desc="pyscript and CPython agree on result, tracer logs and exception type for: " + (d_ + " ; " + r_).replace("\n", " ; ")[:170],
                     sym=f"a,b,c,d in [-{bound},{bound}], p,q bools (symbolic)", known=known, classifier="classify_any" if known else ""))
    return o
