"""C04 - state triggers run the function for exactly the qualifying state changes.

Full stack (see c05.py).  A history is k operations on two entities - write a value, bump an attribute, delete - each either settled
or issued in a burst with the next one; all symbolic.  The oracle restates the property sentence independently for each trigger form.
"""
from vlib import ctx
from vlib.ctx import P, verdict, detail
from vlib.obl import Obl
from vlib.base import symbolic_mode, notrace

LEVEL = "model_checking"
EXPLANATION = ("symbolic execution of the real state_changed listener, State.update/notify_var_get, ident_*_values_changed and both trigger loops through the "
               "full stack; the history of entity operations (which entity, which operation, which value, burst or settled) is symbolic")
BOUNDS = {"quick": "2 operations over 2 entities x {write one of 3 values, bump attribute, drop attribute, delete}, settled or burst; 15 trigger forms x 2 subsystems",
          "thorough": "3 operations (the third on entity a, one of: write 1, write 2, bump attribute, delete)"}
OUTSIDE = "Home Assistant's own coalescing of state_changed events; STATE_RE on names outside [a-z_0-9.]; more operations than the bound; entity names other than the two used"
ASSUMPTIONS = [
    "stub Home Assistant state machine fires one state_changed per effective write (identical writes dropped, as HA does); listeners run as tasks in firing order",
    "harness scheduler mirrors asyncio's FIFO ready queue; counterexamples replayed on a real asyncio loop too",
]

VALS = ["0", "1", "2"]
SRC = '''
calls = []
{decorators}
def f(**kw):
    global calls
    calls += [(kw.get("trigger_type"), kw.get("var_name"), SV(kw.get("value")), SV(kw.get("old_value")), kw.get("extra"))]
'''


def _v(env, n): return env.get(n)


# form: decorators text, watched names (for evaluation), any-change names, truth(env) or None, kwargs override
FORMS = {
    "value": ('@state_trigger("pyscript.a == \'1\'")', ["pyscript.a"], [], lambda e: e("pyscript.a") == "1", None),
    "two_entities": ('@state_trigger("pyscript.a == \'1\' and pyscript.b == \'2\'")', ["pyscript.a", "pyscript.b"], [], lambda e: e("pyscript.a") == "1" and e("pyscript.b") == "2", None),
    "old": ('@state_trigger("pyscript.a.old == \'0\' and pyscript.a == \'1\'")', ["pyscript.a", "pyscript.a.old"], [], lambda e: e("pyscript.a.old") == "0" and e("pyscript.a") == "1", None),
    "attr": ('@state_trigger("pyscript.a.k == 1")', ["pyscript.a.k"], [], lambda e: e("pyscript.a.k") == 1, None),
    "attr_and_value": ('@state_trigger("pyscript.a.k == 1 and pyscript.b != \'0\'")', ["pyscript.a.k", "pyscript.b"], [], lambda e: e("pyscript.a.k") == 1 and e("pyscript.b") != "0", None),
    "is_none": ('@state_trigger("pyscript.a == \'1\' and pyscript.b is None")', ["pyscript.a", "pyscript.b"], [], lambda e: e("pyscript.a") == "1" and e("pyscript.b") is None, None),
    "any_value": ('@state_trigger("pyscript.a")', ["pyscript.a"], ["pyscript.a"], None, None),
    "any_attr": ('@state_trigger("pyscript.a.k")', ["pyscript.a.k"], ["pyscript.a.k"], None, None),
    "any_wild": ('@state_trigger("pyscript.a.*")', ["pyscript.a.*"], ["pyscript.a.*"], None, None),
    "two_exprs": ('@state_trigger("pyscript.a == \'1\'", "pyscript.b == \'1\'")', ["pyscript.a", "pyscript.b"], [], lambda e: e("pyscript.a") == "1" or e("pyscript.b") == "1", None),
    "list_mixed": ('@state_trigger(["pyscript.a == \'2\'", "pyscript.b"])', ["pyscript.a", "pyscript.b"], ["pyscript.b"], lambda e: e("pyscript.a") == "2", None),
    "set_arg": ('@state_trigger({"pyscript.a == \'2\'"})', ["pyscript.a"], [], lambda e: e("pyscript.a") == "2", None),
    "watch_subset": ('@state_trigger("pyscript.a == \'1\' and pyscript.b == \'1\'", watch=["pyscript.a"])', ["pyscript.a"], [], lambda e: e("pyscript.a") == "1" and e("pyscript.b") == "1", None),
    "watch_superset": ('@state_trigger("pyscript.a == \'1\'", watch=["pyscript.a", "pyscript.b"])', ["pyscript.a", "pyscript.b"], [], lambda e: e("pyscript.a") == "1", None),
    "two_decorators": ('@state_trigger("pyscript.a == \'1\'")\n@state_trigger("pyscript.b == \'2\'", kwargs={"extra": 7})', None, None, None, None),
    "kwargs": ('@state_trigger("pyscript.a != \'0\'", kwargs={"value": "X", "extra": 5})', ["pyscript.a"], [], lambda e: e("pyscript.a") != "0", {"value": "X", "extra": 5}),
}


def changed_names(ent, old, new):
    """names that changed in an event on entity `ent` (old/new = (value, k) or None)"""
    out = set()
    ov = old[0] if old else None; nv = new[0] if new else None
    if ov != nv: out |= {ent, ent + ".old"}
    ok = old[1] if old else None; nk = new[1] if new else None
    if ok != nk: out.add(ent + ".k")
    return out


def expect_run(form, ent, old, new, model):
    """does the event (ent: old -> new) with the other entities as in `model` run the function of a single-decorator form?"""
    deco, watch, anyc, truth, kwo = FORMS[form]
    ch = changed_names(ent, old, new)
    for n in anyc:
        if n.endswith(".*"):
            if n[:-2] + ".k" in ch:          # wildcard: any attribute changed (appearing / disappearing with the entity counts)
                return True
        elif n in ch:
            return True
    if truth is None:
        return False
    if not any(w in ch for w in watch):
        return False
    def e(name):
        parts = name.split(".")
        root = ".".join(parts[:2])
        if root == ent:
            cur = new
            if len(parts) == 3 and parts[2] == "old": return old[0] if old else None
        else:
            cur = model.get(root)
            if len(parts) == 3 and parts[2] == "old": return None
        if cur is None: return None
        if len(parts) == 2: return cur[0]
        return cur[1] if parts[2] == "k" else None
    return bool(truth(e))


def history(e1: int, o1: int, b1: bool, e2: int, o2: int, b2: bool, e3: int, o3: int) -> bool:
    """
    pre: 0 <= e1 <= 1 and 0 <= e2 <= 1 and 0 <= e3 <= 1 and 0 <= o1 <= 5 and 0 <= o2 <= 5 and 0 <= o3 <= 5
    pre: P("k") < 3 or (e3 == 0 and o3 in (1, 2, 3, 5))
    post: _
    """
    from vlib.world import mkworld, SEC
    form = P("form"); n = P("k")
    ops = [(e1, o1, b1), (e2, o2, b2), (e3, o3, False)][:n]
    with notrace():
        w = mkworld(P("legacy"))
    try:
        with notrace():
            model = {"pyscript.a": ("0", 0), "pyscript.b": ("0", 0)}
            for ent, (v, k) in model.items():
                w.set_state(ent, v, {"k": k})
            g = w.load("file.x", SRC.format(decorators=FORMS[form][0]), extra={"SV": lambda v: None if v is None else (str(v), getattr(v, "k", None))})
        exp = []; exp_live = []
        batch = []                  # operations issued back-to-back before the event loop gets to run (a burst)
        evs = []                    # (ent, old, new, model-at-event) of the current burst
        notified = set()
        region = P("region")
        cross = False
        def flush():
            # expectation under the recorded finding's semantics: names of an entity that was never notified to this trigger before
            # are read from the live state machine when the expression is finally evaluated, i.e. after the whole burst
            final = dict(model)
            for (ent, old, new, mdl) in evs:
                live = dict(mdl)
                for other in final:
                    if other != ent and other not in notified:
                        live[other] = final[other]
                _expect(exp_live, ent, old, new, live)
                notified.add(ent)
            if batch:
                fns = list(batch)
                w.do(lambda: [f() for f in fns])
            del batch[:]; del evs[:]
            w.settle()
        def _expect(out, ent, old, new, mdl):
            if form == "two_decorators":
                r1 = ent == "pyscript.a" and old_new_changed(old, new) and new is not None and new[0] == "1"
                r2 = ent == "pyscript.b" and old_new_changed(old, new) and new is not None and new[0] == "2"
                for r, extra in ((r1, None), (r2, 7)):
                    if r: out.append(("state", ent, new, old, extra))
            elif expect_run(form, ent, old, new, mdl):
                kwo = FORMS[form][4] or {}
                val = new if "value" not in kwo else kwo["value"]
                out.append(("state", ent, val, old, kwo.get("extra")))
        for i, (ei, op, burst) in enumerate(ops):
            ent = ["pyscript.a", "pyscript.b"][ei]
            old = model.get(ent)
            if op <= 2: new = (VALS[op], old[1] if old else 0)          # write a value (keeps the attribute; creates the entity if deleted)
            elif op == 3: new = (old[0], (old[1] or 0) + 1) if old else None   # attribute-only update (creates the attribute if it was dropped)
            elif op == 5: new = (old[0], None) if old else None         # the attribute disappears (value kept)
            else: new = None                                            # delete
            if not (new == old or (old is None and new is None)):       # (no effective change: Home Assistant fires nothing)
                if evs and evs[-1][0] != ent: cross = True
                if new is None:
                    batch.append(lambda ent=ent: w.hass.states.async_remove(ent))
                else:
                    batch.append(lambda ent=ent, new=new: w.hass.states.async_set(ent, new[0], {} if new[1] is None else {"k": new[1]}))
                model = dict(model); model[ent] = new
                _expect(exp, ent, old, new, model)
                evs.append((ent, old, new, model))
            if not burst:
                flush()
        flush()
        if (region == "main") == cross:
            return verdict(True, False)          # main: bursts that span two entities are the recorded finding's region; "cross": only those
        w.settle()
        w.advance(1 * SEC)
        calls = [tuple(c) for c in g.global_sym_table["calls"]]
    finally:
        w.close()
    norm = lambda x: tuple(x) if isinstance(x, (list, tuple)) else x
    calls = [(c[0], c[1], norm(c[2]), norm(c[3]), c[4]) for c in calls]
    exp = [(c[0], c[1], ("X", None) if c[2] == "X" else norm(c[2]), norm(c[3]), c[4]) for c in exp]
    exp_live = [(c[0], c[1], ("X", None) if c[2] == "X" else norm(c[2]), norm(c[3]), c[4]) for c in exp_live]
    if not symbolic_mode():
        detail(form=form, ops=ops, calls=calls, expected=exp, expected_live=exp_live)
    return verdict(calls == exp, len(exp) > 0)


def old_new_changed(old, new):
    return (old[0] if old else None) != (new[0] if new else None)


def classify_burst_live_read(args, detail_, info):
    """accept only: the runs equal what the live-read semantics of the recorded finding predicts"""
    return detail_.get("calls") == detail_.get("expected_live") and detail_.get("calls") != detail_.get("expected")


def obligations(tier):
    o = []
    k = 2 if tier == "quick" else 3
    for form in FORMS:
        for legacy in (False, True):
            if FORMS[form][1] is None or len({n.split(".")[1] for n in FORMS[form][1]}) > 1 or form in ("watch_subset",):
                o.append(Obl(f"C04.burst.{form}.{'legacy' if legacy else 'default'}", __name__, "history", {"form": form, "legacy": legacy, "k": k, "region": "cross"},
                             timeout=600 if tier == "quick" else 3000,
                             desc=f"{FORMS[form][0]!r} with a burst spanning both entities: each event is evaluated on that event's values",
                             sym=f"{k} operations as in the main obligation, restricted to histories with a burst across two entities", real_loop=True, twin=False,
                             known="C04.burst_live_read", classifier="classify_burst_live_read"))
            o.append(Obl(f"C04.{form}.{'legacy' if legacy else 'default'}", __name__, "history", {"form": form, "legacy": legacy, "k": k, "region": "main"},
                         timeout=600 if tier == "quick" else 3000,
                         desc=f"{FORMS[form][0]!r}: the function runs once, in event order, for exactly the changes of a watched name at which the expression is truthy on that "
                              "event's values (or an any-change form matches), with that event's var_name/value/old_value (decorator kwargs override)",
                         sym=f"{k} operations: entity in {{a,b}}, operation in {{write '0'|'1'|'2', bump attribute k, drop attribute k, delete}}, burst-with-next bool - all symbolic",
                         real_loop=True, twin=(form in ("value", "any_wild", "two_entities")),
                         encodes=("state.State.update", "state.State.notify_var_get", "__init__.async_setup_entry.<locals>.state_changed") +
                                 (("trigger.TrigInfo.trigger_watch",) if legacy else ("decorators.state.StateTriggerDecorator._cycle",))))
    return o
