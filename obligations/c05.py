"""C05 - state_check_now / state_hold / state_hold_false timing semantics.

Full stack: the trigger is defined by a real script evaluated by AstEval under the real async_setup_entry; events enter through the stub
state machine -> real state_changed listener -> State.update -> trigger loop.  Inter-arrival times, truth values and the kind of each
change (relevant / attribute-only / unwatched entity) are solver variables; the oracle is a reference timeline written from the documented rules.
"""
from vlib import ctx
from vlib.ctx import P, verdict, detail
from vlib.obl import Obl
from vlib.base import symbolic_mode, notrace

LEVEL = "model_checking"
EXPLANATION = ("symbolic execution of the real trigger loops (legacy TrigInfo.trigger_watch and StateTriggerDecorator._cycle/_check_new_state) through the full stack "
               "on a virtual clock; event gaps, truth values and event kinds symbolic; reference timeline oracle")
BOUNDS = {"quick": "3 events, gaps in [1 ms, 8 s] (integer ms), S = 5 s, H = 3 s; event kinds: 1st value write, 2nd/3rd value write or attribute-only; values {0,1} then {0,1,2}; 9 configurations x initial truth x 2 subsystems",
          "thorough": "3 events (1st a value write, 2nd a value write, attribute-only update or change of an unwatched entity, 3rd a value write or attribute-only update); all 27 configurations x initial truth x 2 subsystems"}
OUTSIDE = "exact ties between an event and a timer expiry (excluded by precondition, as in the property); floating-point effects of loop.time() arithmetic (exact rationals); more events than the bound"
ASSUMPTIONS = [
    "stub Home Assistant state machine (drops writes that change nothing, as HA does), harness scheduler mirroring asyncio's FIFO ready queue, virtual clock in integer microseconds",
    "counterexamples are replayed on the harness and on a real asyncio loop with a virtual clock before being reported",
]

S_US = 5_000_000
H_US = 3_000_000
SRC = '''
calls = []
@state_trigger("pyscript.a != '0'"{kw})
def f(**kw):
    global calls
    calls += [(T(), kw.get("value"), kw.get("old_value"), kw.get("var_name"), AK(kw.get("value")))]
'''


def ref_timeline(cfg, init_true, events):
    """events: list of (t_us, relevant: bool, truth: bool, args) in time order -> list of (run time, args)"""
    check_now, hold, hold_false = cfg
    runs = []
    waiting = None              # (t0, args)
    false_time = None
    def flush(upto):
        nonlocal waiting
        if waiting is not None and waiting[0] + hold <= upto:
            runs.append((waiting[0] + hold, waiting[1])); waiting = None
    def true_eval(t, args):
        nonlocal waiting
        if hold is not None:
            if waiting is None: waiting = (t, args)
        else:
            runs.append((t, args))
    def false_eval(t):
        nonlocal waiting
        waiting = None
    # start-up evaluation
    if check_now or hold_false is not None:
        if hold_false is not None:
            false_time = None if init_true else 0
        if check_now:
            if init_true: true_eval(0, None)
            # (a false initial evaluation cancels nothing: nothing is pending yet)
    for (t, relevant, truth, args) in events:
        flush(t)
        if not relevant:
            continue
        if hold_false is not None:
            if false_time is None:
                if truth:
                    continue                     # not last seen false: ignored altogether
                false_time = t
            elif truth:
                too_soon = t - false_time < hold_false
                false_time = None
                if too_soon:
                    continue
        if truth: true_eval(t, args)
        else: false_eval(t)
    flush(10**12)
    return runs


def _kinds_ok(*ks):
    allowed = P("kinds")
    ok = True
    for k, a in zip(ks, allowed):
        ok = ok and (0 <= k <= a)
    return ok


def timeline(g1: int, g2: int, g3: int, g4: int, v1: int, v2: int, v3: int, v4: int, k1: int, k2: int, k3: int, k4: int) -> bool:
    """
    pre: 1 <= g1 <= 8000 and 1 <= g2 <= 8000 and 1 <= g3 <= 8000 and 1 <= g4 <= 8000
    pre: 0 <= v1 <= P("vmax")[0] and 0 <= v2 <= P("vmax")[1] and 0 <= v3 <= P("vmax")[2] and 0 <= v4 <= 2
    pre: _kinds_ok(k1, k2, k3, k4)
    post: _
    """
    from vlib.world import mkworld, SEC
    n = P("k"); cfg = tuple(P("cfg")); init_true = P("init"); legacy = P("legacy")
    check_now, hold, hold_false = cfg
    gaps = [g1, g2, g3, g4][:n]; vals = [v1, v2, v3, v4][:n]; kinds = [k1, k2, k3, k4][:n]
    kw = ""
    if check_now is not None: kw += f", state_check_now={check_now}"
    if hold is not None: kw += f", state_hold={hold / 10**6}"
    if hold_false is not None: kw += f", state_hold_false={hold_false / 10**6}"
    with notrace():          # concrete set-up (real async_setup_entry, script load): nothing symbolic yet
        w = mkworld(legacy)
    try:
        cur = ("1" if init_true else "0", 0)
        with notrace():
            w.set_state("pyscript.a", cur[0], {"k": cur[1]}); w.set_state("pyscript.z", "0")
            g = w.load("file.x", SRC.format(kw=kw), extra={"T": lambda: w.env.t, "AK": lambda v: getattr(v, "k", None)})
        t = 0; events = []; zc = 0
        for i, (gap, v, kind) in enumerate(zip(gaps, vals, kinds)):
            t = t + gap * 1000
            w.advance(t)
            if kind == 2:                                   # unwatched entity changes
                zc += 1; w.set_state("pyscript.z", str(zc))
                events.append((t, False, False, None)); continue
            newv = ["0", "1", "2"][v]
            if kind == 1:                                   # attribute-only update of the value-watched entity (value kept)
                new = (cur[0], cur[1] + 1)
            else:
                new = (newv, cur[1])
            if new == cur:
                events.append((t, False, False, None)); continue          # HA drops a write that changes nothing
            relevant = new[0] != cur[0]
            old = cur; cur = new
            w.set_state("pyscript.a", new[0], {"k": new[1]})
            events.append((t, relevant, new[0] != "0", (new[0], old[0], "pyscript.a", new[1])))
        w.advance(t + 20 * SEC)
        calls = [tuple(c) for c in g.global_sym_table["calls"]]
    finally:
        w.close()
    # ties between an event and a pending timer are outside the property
    ev_t = [e[0] for e in events]
    for a in [0] + ev_t:
        for b in ev_t:
            if hold and b - a == hold: return verdict(True, False)
            if hold_false and b - a == hold_false: return verdict(True, False)
    exp_runs = ref_timeline(cfg, init_true, events)
    exp = [(rt, ) + (a if a is not None else (None, None, None, None)) for rt, a in exp_runs]
    part = P("part")
    if part == "times":
        ok = [c[0] for c in calls] == [e[0] for e in exp]
    else:
        ok = calls == exp
    if not symbolic_mode():
        detail(cfg=cfg, init=init_true, events=events, calls=calls, expected=exp)
    return verdict(ok, len(exp) > 0)


CFGS = [(cn, h, hf) for cn in (None, False, True) for h in (None, 0, S_US) for hf in (None, 0, H_US)]
QUICK_CFGS = [(cn, h, hf) for cn in (None, True) for (h, hf) in ((S_US, None), (None, H_US), (S_US, H_US))] + [(None, None, None), (True, 0, None), (None, None, 0)]


def cfg_name(c):
    def n(x): return "none" if x is None else str(x) if isinstance(x, bool) else ("0" if x == 0 else "set")
    return f"cn_{n(c[0])}.hold_{n(c[1])}.hf_{n(c[2])}"


def obligations(tier):
    o = []
    k = 3
    kinds = [0, 1, 1, 0] if tier == "quick" else [0, 2, 1, 0]      # highest event kind allowed per position (0 value write, 1 attribute-only, 2 unwatched entity)
    vmax = [1, 2, 1]            # highest new value per position
    cfgs = QUICK_CFGS if tier == "quick" else CFGS
    for legacy in (True, False):
        for cfg in cfgs:
            for init in (False, True):
                if tier == "quick" and init and cfg[0] is None and cfg[2] is None: continue      # initial truth is irrelevant without a start-up evaluation
                k = 3
                if tier == "quick" and cfg[1] and cfg[2]: k = 2          # two timers: every ordering of 2 events (3 in the thorough tier)
                o.append(Obl(f"C05.{'legacy' if legacy else 'default'}.{cfg_name(cfg)}.init{int(init)}", __name__, "timeline",
                             {"k": k, "cfg": list(cfg), "init": init, "legacy": legacy, "part": "all", "kinds": kinds, "vmax": vmax}, timeout=900 if tier == "quick" else 3000,
                             tier="quick" if cfg in QUICK_CFGS else "thorough",
                             desc=f"@state_trigger(\"pyscript.a != '0'\", state_check_now={cfg[0]}, state_hold={cfg[1] and cfg[1] / 1e6}, state_hold_false={cfg[2] and cfg[2] / 1e6}), expression initially {init}: "
                                  "run times and carried arguments equal the reference timeline (first true evaluation + hold, hold_false gating, irrelevant changes ignored)",
                             sym=f"{k} events: gap in [1 ms, 8 s] (integer ms), new value in {{0,1,2}} (true iff != 0, so a watched change can keep the expression true), kind per event in value write / attribute-only update / unwatched entity (allowed kinds per position: {kinds[:k]}) - all symbolic",
                             real_loop=True, twin=(init is False and cfg in ((None, S_US, None), (True, None, H_US))),
                             encodes=(("trigger.TrigInfo.trigger_watch",) if legacy else ("decorators.state.StateTriggerDecorator._cycle", "decorators.state.StateTriggerDecorator._check_new_state"))
                                     + ("state.State.update", "__init__.async_setup_entry.<locals>.state_changed")))
    return o
