"""C06 - time triggers fire at exactly the instants their specification denotes.

Layer 1: TrigTime.timer_trigger_next / parse_date_time / parse_time_offset executed symbolically: `now` is a solver variable
         (microsecond-exact time of day on an enumerated calendar date), compared with an independent candidate-set oracle.
Layer 2: the IEEE-754 kernel of period() translated from the current source into QF_BVFP and decided by cvc5 (E2).
Layer 3: the two run loops (legacy trigger_watch, TimeTriggerDecorator._cycle) on the virtual clock.
"""
import ast, datetime as rdt, math, os, re, subprocess, tempfile, time
from fractions import Fraction

from vlib import ctx, vdt
from vlib.ctx import P, verdict, detail
from vlib.obl import Obl
from vlib.base import symbolic_mode, notrace
from vlib.timeenv import TimeEnv, ord2us, sun_us, DAY, us2real

LEVEL = "model_checking"
EXPLANATION = ("symbolic execution of the real timer_trigger_next/parse_date_time with the current time as a microsecond-exact solver variable "
               "against a candidate-set oracle; IEEE kernel of period() decided in QF_BVFP by cvc5; run loops on a virtual clock")
BOUNDS = {"quick": "now = D + x, x in [0, 24h) microseconds symbolic, D in 4 calendar dates; ~60 specifications from the documented grammar; FP lemma for x < 1 day",
          "thorough": "D in 10 dates (leap day, month/year ends, DST days); ~90 specifications; FP lemma for x < 7 days"}
OUTSIDE = ("which instants a cron expression denotes (croniter trusted); real tz database; astronomy of sunrise/sunset (astral trusted, evaluated on concrete dates); "
           "dates other than the enumerated ones; non-English day names; period() intervals other than the enumerated ones")
ASSUMPTIONS = [
    "datetime/timedelta modelled as integer microseconds (vlib.vdt) under CrossHair; shim validated against the repo's own tables in preflight; counterexamples replayed on the standard datetime",
    "(now-start).total_seconds()/period and math.floor modelled exactly (rationals) in CrossHair obligations; the IEEE-754 behaviour of that kernel is decided separately per interval by the C06.fp.* lemmas",
    "croniter replaced by a stub yielding a symbolic strictly increasing candidate sequence; dt_util.as_local(x).astimezone(UTC) = x - offset(x) with one symbolic +-1h transition (time zone = piecewise-constant offset)",
    "sunrise/sunset come from the real astral location for lat 38 / lon -122 / America/Los_Angeles",
]

DOW = ["sun", "mon", "tue", "wed", "thu", "fri", "sat"]
DATES = {   # name -> date
    "tue": rdt.date(2019, 9, 3), "leapday": rdt.date(2020, 2, 29), "feb28": rdt.date(2019, 2, 28), "dec31": rdt.date(2019, 12, 31),
    "eom": rdt.date(2019, 8, 31), "dst_end": rdt.date(2019, 11, 3), "dst_start": rdt.date(2019, 3, 10), "feb28leap": rdt.date(2020, 2, 28),
    "sat": rdt.date(2019, 9, 7), "jan1": rdt.date(2020, 1, 1),
}
STARTUP_US = ord2us(rdt.date(2019, 9, 1)) + 7 * 3600 * 10**6          # a start-up time before every enumerated `now` except feb/mar 2019
UNITS = {"s": 1, "sec": 1, "": 1, "m": 60, "min": 60, "minutes": 60, "h": 3600, "hours": 3600, "hr": 3600, "d": 86400, "days": 86400, "w": 604800, "week": 604800}


# ---------------------------------------------------------------------------------------------- spec descriptors
def fmt_off(off):
    if off is None: return ""
    v, u = off
    sign = "+" if v >= 0 else "-"
    return f" {sign} {abs(v)}{u}" if u != "" else f" {sign} {abs(v)}"


def off_us(off):
    if off is None: return 0
    v, u = off
    return round(Fraction(str(v)) * UNITS[u] * 10**6)


def fmt_dt(d):
    date, tm, off = d
    s = ""
    if date is not None:
        k = date[0]
        s = {"dow": lambda: DOW[date[1]], "md": lambda: f"{date[1]}/{date[2]}", "ymd": lambda: f"{date[1]}/{date[2]}/{date[3]}",
             "today": lambda: "today", "tomorrow": lambda: "tomorrow"}[k]()
    if tm is not None:
        k = tm[0]
        t = {"hms": lambda: (f"{tm[1]}:{tm[2]:02d}" + ("" if tm[3] is None else f":{tm[3]:02d}" if isinstance(tm[3], int) else f":{tm[3]:04.1f}" if tm[3] * 10 == int(tm[3] * 10) else f":{tm[3]}")),
             "noon": lambda: "noon", "midnight": lambda: "midnight", "sunrise": lambda: "sunrise", "sunset": lambda: "sunset", "now": lambda: "now"}[k]()
        s = (s + " " + t).strip()
    return s + fmt_off(off)


def tod_us(tm, date):
    if tm is None: return 0
    k = tm[0]
    if k == "hms":
        sec = tm[3] or 0
        return (tm[1] * 3600 + tm[2] * 60) * 10**6 + round(Fraction(str(sec)) * 10**6)
    if k == "noon": return 12 * 3600 * 10**6
    if k == "midnight": return 0
    if k in ("sunrise", "sunset"): return sun_us(k, date) - ord2us(date)
    raise ValueError(k)


def date_days(date, today):
    """concrete calendar days a date form denotes, in a window around `today`"""
    if date is None: return [dplus(today, k) for k in range(-3, 4)]
    k = date[0]
    if k == "dow": return [d for d in (dplus(today, j) for j in range(-8, 9)) if d.isoweekday() % 7 == date[1]]
    if k == "md":
        out = []
        for y in (today.year - 1, today.year, today.year + 1):
            try: out.append(rdt.date(y, date[1], date[2]))
            except ValueError: pass
        return out
    if k == "ymd": return [rdt.date(date[1], date[2], date[3])]
    if k == "today": return [today]
    if k == "tomorrow": return [dplus(today, 1)]
    raise ValueError(k)


def instants(d, today, start_us):
    """all instants (microseconds; may contain the symbolic start-up time) denoted by a datetime descriptor near `today`"""
    date, tm, off = d
    if tm is not None and tm[0] == "now":
        with notrace():
            o = off_us(off)
        return [start_us + o]
    with notrace():       # concrete calendar computation (astral, fractions): nothing symbolic in here
        return [ord2us(day) + tod_us(tm, day) + off_us(off) for day in date_days(date, today)]


def dplus(d, k):
    """date + k days (ordinal arithmetic: CrossHair swaps datetime.timedelta for its own class while tracing)"""
    return rdt.date.fromordinal(d.toordinal() + k)


def next_of(cands, now):
    best = None
    for c in cands:
        if c > now and (best is None or c < best): best = c
    return best


# ---------------------------------------------------------------------------------------------- once()
ONCE = {
    # name: (descriptor, recurring) ; recurring = dow/md forms (the once_recur finding applies on the matching day/after the instant)
    "hm": ((None, ("hms", 9, 0, None), None), False),
    "hms": ((None, ("hms", 12, 30, 15), None), False),
    "hmsf": ((None, ("hms", 12, 30, 15.5), None), False),
    "hms_small": ((None, ("hms", 0, 0, 0.000001), None), False),
    "late": ((None, ("hms", 23, 59, 59.999999), None), False),
    "noon": ((None, ("noon",), None), False),
    "midnight": ((None, ("midnight",), None), False),
    "noon_plus": ((None, ("noon",), (90, "s")), False),
    "noon_minus": ((None, ("noon",), (-1.5, "hours")), False),
    "hm_plus_min": ((None, ("hms", 6, 0, None), (45, "min")), False),
    "hm_minus_day": ((None, ("hms", 6, 0, None), (-1, "d")), False),
    "hm_plus_day": ((None, ("hms", 9, 0, None), (1, "d")), False),
    "sunrise": ((None, ("sunrise",), None), False),
    "sunset_minus": ((None, ("sunset",), (-20, "min")), False),
    "sunrise_plus": ((None, ("sunrise",), (0.5, "h")), False),
    "dow_wed": ((("dow", 3), ("hms", 9, 0, None), None), True),
    "dow_tue": ((("dow", 2), ("hms", 9, 0, None), None), True),
    "dow_sun_sunset": ((("dow", 0), ("sunset",), (-1.5, "hr")), True),
    "dow_only": ((("dow", 5), None, None), True),
    "md": ((("md", 9, 3), ("hms", 12, 30, 15.5), None), True),
    "md_feb29": ((("md", 2, 29), ("noon",), None), True),
    "md_dec31": ((("md", 12, 31), ("hms", 23, 59, 59), None), True),
    "md_jan1": ((("md", 1, 1), None, None), True),
    "ymd": ((("ymd", 2019, 9, 3), ("hms", 13, 0, None), None), False),
    "ymd_future": ((("ymd", 2020, 3, 1), ("hms", 0, 0, 1), None), False),
    "ymd_past": ((("ymd", 2018, 1, 1), ("noon",), None), False),
    "ymd_plus_week": ((("ymd", 2019, 8, 27), ("hms", 13, 0, None), (1, "w")), False),
    "today": ((("today",), ("hms", 14, 0, None), None), False),
    "tomorrow": ((("tomorrow",), ("hms", 1, 0, None), None), False),
    "tomorrow_sunrise": ((("tomorrow",), ("sunrise",), None), False),
    "now_plus": ((None, ("now",), (5, "min")), False),
    "now_plus_days": ((None, ("now",), (2, "d")), False),
}


def once(x: int, y: int) -> bool:
    """
    pre: 0 <= x < DAY and 0 <= y < DAY
    post: _
    """
    desc, recurring = ONCE[P("spec")]
    today = DATES[P("date")]
    now = ord2us(today) + x
    start = STARTUP_US if not P("symstart") else ord2us(dplus(today, -1)) + y   # symbolic start-up within the previous day
    with notrace():
        spec = "once(" + fmt_dt(desc) + ")"
    cands = instants(desc, today, start)
    exp = next_of(cands, now)
    region = P("region")            # "main": outside the known once_recur region; "recur": inside it
    if recurring:
        # the recurring forms re-arm for the next week / year: region where today's (this year's) instant has passed
        passed_today = _same_period_passed(desc, today, now, cands)
        if region == "main" and passed_today: return verdict(True, False)
        if region == "recur" and not passed_today: return verdict(True, False)
    with TimeEnv() as te:
        got, adj = te.next(spec, now, start)
    if not symbolic_mode():
        detail(spec=spec, now=str(us2real(now)), got=None if got is None else str(us2real(got)), expected=None if exp is None else str(us2real(exp)))
    ok = (got == exp) and (adj == got)
    return verdict(ok, got is not None)


def _same_period_passed(desc, today, now, cands):
    """True when the instant of the *current* week (dow forms: today is that weekday) / current year (md forms) exists and is <= now"""
    date = desc[0]
    with notrace():
        c = None
        if date[0] == "dow":
            if today.isoweekday() % 7 == date[1]:
                c = ord2us(today) + tod_us(desc[1], today) + off_us(desc[2])
        elif date[0] == "md":
            try:
                d = rdt.date(today.year, date[1], date[2]); c = ord2us(d) + tod_us(desc[1], d) + off_us(desc[2])
            except ValueError:
                c = None
    return c is not None and c <= now


def _static_region(desc, today):
    """'main' / 'recur' when the whole day lies in one region, else 'both'"""
    lo = _same_period_passed(desc, today, ord2us(today), None); hi = _same_period_passed(desc, today, ord2us(today) + DAY - 1, None)
    return "recur" if lo and hi else "main" if not lo and not hi else "both"


def _leap(y):
    return y % 4 == 0 and (y % 100 != 0 or y % 400 == 0)


def classify_feb29(args, detail_, info):
    return "day is out of range for month" in (info.get("exception") or "")


def classify_once_recur(args, detail_, info):
    """accept only: the implementation returned no next time although a later weekly/yearly instant exists"""
    return detail_.get("got") is None and detail_.get("expected") is not None


# ---------------------------------------------------------------------------------------------- period()
PERIOD = {
    # name: (start descriptor, interval seconds, interval string, end descriptor or None)
    "mid_90s": ((None, ("midnight",), None), 90, "90s", None),
    "mid_1s": ((None, ("midnight",), None), 1, "1 sec", None),
    "mid_half": ((None, ("midnight",), None), 0.5, "0.5s", None),
    "mid_1h": ((None, ("midnight",), None), 3600, "1 hour", None),
    "mid_1d": ((None, ("midnight",), None), 86400, "1d", None),
    "off_5min": ((None, ("hms", 0, 2, 30), None), 300, "5min", None),
    "ymd_7min": ((("ymd", 2019, 9, 1), ("hms", 8, 0, None), None), 420, "7 min", None),
    "ymd_future": ((("ymd", 2020, 6, 1), ("noon",), None), 3600, "1h", None),
    "ymd_1w": ((("ymd", 2019, 1, 7), ("hms", 6, 30, None), None), 604800, "1w", None),
    "now_5min": ((None, ("now",), (10, "m")), 300, "5min", None),
    "now_1d": ((None, ("now",), None), 86400, "1 day", None),
    "end_7min": ((None, ("hms", 8, 0, None), None), 420, "7min", (None, ("hms", 9, 30, None), None)),
    "end_wrap": ((None, ("hms", 22, 0, None), None), 1800, "30 min", (None, ("hms", 2, 0, None), None)),
    "end_now": ((None, ("now",), (10, "m")), 300, "5min", (None, ("now",), (30, "min"))),
    "end_ymd": ((("ymd", 2019, 9, 3), ("hms", 6, 0, None), None), 5400, "1.5 hours", (("ymd", 2019, 9, 3), ("hms", 18, 0, None), None)),
    "end_sun": ((None, ("sunrise",), None), 3600, "1h", (None, ("sunset",), None)),
}


def period(x: int, y: int) -> bool:
    """
    pre: 0 <= x < DAY and 0 <= y < DAY
    post: _
    """
    sd, secs, istr, ed = PERIOD[P("spec")]
    today = DATES[P("date")]
    now = ord2us(today) + x
    start_up = STARTUP_US if not P("symstart") else ord2us(dplus(today, -1)) + y
    with notrace():
        Pus = round(Fraction(str(secs)) * 10**6)
        spec = "period(" + fmt_dt(sd) + ", " + istr + ("" if ed is None else ", " + fmt_dt(ed)) + ")"
    def anchor(dsc, day):
        with notrace():
            return ord2us(day) + tod_us(dsc[1], day) + off_us(dsc[2])
    fixed = sd[0] is not None or (sd[1] is not None and sd[1][0] == "now")
    exp = None
    if ed is None:
        if fixed:
            s0 = instants(sd, today, start_up)[0]
            exp = s0 if now < s0 else s0 + Pus * ((now - s0) // Pus + 1)
        else:
            s0 = anchor(sd, today)     # daily re-anchoring; self-consistent specs only (start < P, P | 24h)
            exp = s0 if now < s0 else s0 + Pus * ((now - s0) // Pus + 1)
    else:
        efixed = ed[0] is not None or (ed[1] is not None and ed[1][0] == "now")
        days = [today] if (fixed or efixed) else [dplus(today, k) for k in (-1, 0, 1, 2)]
        for day in days:
            s0 = instants(sd, today, start_up)[0] if fixed else anchor(sd, day)
            if efixed: e0 = instants(ed, today, start_up)[0]
            else:
                e0 = anchor(ed, day)
                if e0 < s0 and not fixed: e0 = anchor(ed, dplus(day, 1))
            if e0 < s0: continue
            c = s0 if now < s0 else s0 + Pus * ((now - s0) // Pus + 1)
            if c <= e0 and c > now and (exp is None or c < exp): exp = c
    with TimeEnv() as te:
        got, adj = te.next(spec, now, start_up)
    if not symbolic_mode():
        detail(spec=spec, now=str(us2real(now)), got=None if got is None else str(us2real(got)), expected=None if exp is None else str(us2real(exp)))
    return verdict(got == exp and adj == got, got is not None)


# ---------------------------------------------------------------------------------------------- lists, metamorphic
LISTS = {
    "two": ["once(noon)", "period(midnight, 6h)"],
    "three": ["once(9:00)", "once(tomorrow 1:00)", "period(0:02:30, 5min)"],
    "dup": ["once(13:00)", "once(13:00:00)", "once(noon + 1h)"],
    "sun": ["once(sunrise)", "once(sunset)", "once(noon)"],
}


def speclist(x: int) -> bool:
    """
    pre: 0 <= x < DAY
    post: _
    """
    specs = LISTS[P("spec")]; today = DATES[P("date")]; now = ord2us(today) + x
    with TimeEnv() as te:
        singles = [te.next(s, now, STARTUP_US)[0] for s in specs]
        got, adj = te.next(list(specs), now, STARTUP_US)
    exp = None
    for s in singles:
        if s is not None and (exp is None or s < exp): exp = s
    if not symbolic_mode():
        detail(specs=specs, got=None if got is None else str(us2real(got)))
    return verdict(got == exp and adj == got, got is not None)


# (relative dates - today/tomorrow - denote a different instant when evaluated on another day, so they are not in this list)
META = ["once(9:00)", "once(sunset - 20min)", "period(midnight, 90s)", "period(8:00, 7min, 9:30)", "once(wed 9:00)", "period(22:00, 30 min, 2:00)", "once(2019/12/31 23:59:59)"]


def metamorphic(x: int, t: int) -> bool:
    """
    pre: 0 <= x < DAY and x <= t < 3 * DAY
    post: _
    """
    # next(now) > now; and for every now <= t < next(now): next(t) == next(now)  (no skipped / repeated instant)
    spec = META[P("spec")]; today = DATES[P("date")]; now = ord2us(today) + x; tt = ord2us(today) + t
    with TimeEnv() as te:
        r, adj = te.next(spec, now, STARTUP_US)
        if r is None:
            return verdict(True, False)
        ok = r > now
        if tt < r:
            r2, _ = te.next(spec, tt, STARTUP_US)
            ok = ok and r2 == r
        # and the successor of the result is strictly later
        r3, _ = te.next(spec, r, STARTUP_US)
        ok = ok and (r3 is None or r3 > r)
    detail(spec=spec, now=x, t=t)
    return verdict(ok, True)


# ---------------------------------------------------------------------------------------------- E2: IEEE lemma for the period kernel
def _kernel_ast():
    src = open(os.path.join(ctx.REPO, "custom_components/pyscript/trigger.py")).read()
    tree = ast.parse(src)
    fn = [n for n in ast.walk(tree) if isinstance(n, ast.AsyncFunctionDef) and n.name == "timer_trigger_next"]
    if len(fn) != 1: raise RuntimeError("timer_trigger_next not found")
    assigns = [n for n in ast.walk(fn[0]) if isinstance(n, ast.Assign) and len(n.targets) == 1 and isinstance(n.targets[0], ast.Name) and n.targets[0].id == "secs"]
    if not assigns: raise RuntimeError("assignment to `secs` not found in timer_trigger_next")
    if len({ast.dump(a.value) for a in assigns}) != 1: raise RuntimeError("differing `secs` expressions")
    uses = [n for n in ast.walk(fn[0]) if isinstance(n, ast.Assign) and ast.unparse(n.value) == "start + dt.timedelta(seconds=secs)"]
    if len(uses) != len(assigns): raise RuntimeError("`this_t = start + dt.timedelta(seconds=secs)` not found next to each `secs`")
    return assigns[0].value, len(assigns)


def _smt_query(expr, period, max_us):
    import z3
    F = z3.Float64(); RNE = z3.RNE()
    def tr(node, env):
        if isinstance(node, ast.Constant): return z3.FPVal(float(node.value), F)
        if isinstance(node, ast.Name): return env[node.id]
        if isinstance(node, ast.BinOp):
            a, b = tr(node.left, env), tr(node.right, env)
            op = {ast.Mult: z3.fpMul, ast.Add: z3.fpAdd, ast.Sub: z3.fpSub, ast.Div: z3.fpDiv}[type(node.op)]
            return op(RNE, a, b)
        if isinstance(node, ast.Call):
            f = ast.unparse(node.func)
            if f == "math.floor" and len(node.args) == 1: return z3.fpRoundToIntegral(z3.RTN(), tr(node.args[0], env))
            if f == "(now - start).total_seconds" and not node.args: return env["__delta_seconds__"]
        raise NotImplementedError(ast.unparse(node))
    x = z3.BitVec("x", 64)
    xf = z3.fpUnsignedToFP(RNE, x, F)
    # timedelta.total_seconds() of a non-negative delta below 2**53 us = x / 10**6 (one correctly rounded division)
    env = {"period": z3.FPVal(period, F), "__delta_seconds__": z3.fpDiv(RNE, xf, z3.FPVal(1e6, F))}
    secs = tr(expr, env)
    # C semantics of timedelta(seconds=float): whole = trunc(secs); frac us = round-half-even((secs - whole) * 1e6)
    ip = z3.fpRoundToIntegral(z3.RTZ(), secs); fr = z3.fpSub(RNE, secs, ip)
    frus = z3.fpRoundToIntegral(RNE, z3.fpMul(RNE, fr, z3.FPVal(1e6, F)))
    us = z3.fpToUBV(RNE, ip, z3.BitVecSort(64)) * z3.BitVecVal(10**6, 64) + z3.fpToUBV(RNE, frus, z3.BitVecSort(64))
    Pus = round(Fraction(str(period)) * 10**6)
    exact = z3.BitVecVal(Pus, 64) * (z3.BitVecVal(1, 64) + z3.UDiv(x, z3.BitVecVal(Pus, 64)))
    s = z3.SolverFor("QF_BVFP"); s.add(z3.ULT(x, z3.BitVecVal(max_us, 64)), us != exact)
    return "(set-logic QF_BVFP)\n" + s.to_smt2().replace("(set-info :status unknown)", "") + "(get-value (x))\n"


def fp_lemma(params):
    """IEEE result of the period kernel == exact rational model, for every now-start below the bound (cvc5, QF_BVFP)"""
    expr, n = _kernel_ast()
    q = _smt_query(expr, float(params["period"]), int(params["max_us"]))
    d = tempfile.mkdtemp(prefix="verif-e2-")
    try:
        f = os.path.join(d, "q.smt2"); open(f, "w").write(q)
        t0 = time.time()
        try:
            p = subprocess.run(["cvc5", "--produce-models", f], capture_output=True, text=True, timeout=float(params.get("solver_timeout", 600)))
            out = p.stdout.split()
            ans = out[0] if out else "error"
            errs = [l for l in (p.stdout + p.stderr).splitlines() if "(error" in l and not (ans == "unsat" and "annot get value" in l)]
            if errs or ans not in ("sat", "unsat", "unknown"): ans = "error"
        except subprocess.TimeoutExpired:
            ans = "timeout"; p = None
        dt_s = round(time.time() - t0, 2)
    finally:
        import shutil; shutil.rmtree(d, ignore_errors=True)
    res = {"verdict": ans, "queries": [{"logic": "QF_BVFP", "solver": "cvc5 1.0.3 binary", "answer": ans, "time_s": dt_s, "period_s": params["period"], "bound_us": params["max_us"]}],
           "solver_cmd": "cvc5 --produce-models q.smt2", "note": f"expression translated: secs = {ast.unparse(expr)} ({n} occurrences) + timedelta(seconds=secs) C rounding"}
    if ans == "sat":
        m = re.search(r"#b([01]+)", p.stdout); xv = int(m.group(1), 2) if m else int(re.search(r"#x([0-9a-fA-F]+)", p.stdout).group(1), 16)
        res["witness_args"] = [xv]
    return res


def fp_lemma_replay(x):
    """concrete replay of an E2 witness on the real function with the standard datetime: the occurrence after `now` is lost or misplaced"""
    secs = float(P("period"))
    Pus = round(Fraction(str(secs)) * 10**6)
    start = ord2us(rdt.date(2019, 9, 1))
    now = start + x
    with TimeEnv() as te:
        got, _ = te.next(f"period(2019/9/1 0:00, {secs}s)", now, STARTUP_US)
    exp = start + Pus * (x // Pus + 1)
    detail(period=secs, now_minus_start_us=x, got=None if got is None else got - start, expected=exp - start)
    return got == exp


def classify_period_fp(args, detail_, info):
    return detail_.get("got") != detail_.get("expected")


# ---------------------------------------------------------------------------------------------- preflight: shim validation on the repo's own tables
def preflight():
    import importlib.util, sys
    assert "crosshair" not in sys.modules
    from vlib.base import run
    from vlib import timeenv
    from custom_components.pyscript import trigger
    from custom_components.pyscript.trigger import TrigTime
    spec = importlib.util.spec_from_file_location("tut", os.path.join(ctx.REPO, "tests/test_unit_trigger.py"))
    tut = importlib.util.module_from_spec(spec); spec.loader.exec_module(tut)
    bad = []; n = 0
    def v(x): return None if x is None else vdt.datetime.from_real(x)
    with TimeEnv() as te:
        def use(shim):
            if shim:
                trigger.dt = vdt; trigger.math = vdt.vmath
                trigger.sun = type("S", (), {"get_astral_location": staticmethod(lambda h: timeenv.VLoc())})
            else:
                trigger.dt = rdt; trigger.math = math; trigger.sun = timeenv._sun
        now = rdt.datetime(2019, 9, 1, 13, 0, 0, 0)
        for specstr, off, expect in tut.parseDateTimeTests:
            use(False); a, _ = run(TrigTime.parse_date_time(specstr, off, now, now))
            use(True); b, _ = run(TrigTime.parse_date_time(specstr, off, v(now), v(now)))
            n += 1
            if not (a == expect and b.to_real() == expect): bad.append(("PDT", specstr, off, str(a), str(b.to_real()), str(expect)))
        params = []
        for mk in getattr(tut.test_timer_active_check, "pytestmark", []):
            if mk.name == "parametrize": params = mk.args[1]
        st = rdt.datetime(2019, 9, 1, 13, 0, 0, 0)
        for p_ in params:
            specx, nowx, exp = p_.values if hasattr(p_, "values") else p_
            if "cron" in str(specx): continue
            use(False); a = run(TrigTime.timer_active_check(specx, nowx, st))
            use(True); b = run(TrigTime.timer_active_check(specx, v(nowx), v(st)))
            n += 1
            if not (a == exp and b == exp): bad.append(("TAC", str(specx), str(nowx), a, b, exp))
        for specx, seq in tut.timerTriggerNextTests:
            if any("cron" in s for s in specx): continue
            for shim in (False, True):
                use(shim)
                nw = rdt.datetime(2019, 9, 1, 13, 0, 0, 100000); stt = nw
                for exp in seq:
                    if shim:
                        t, _ = run(TrigTime.timer_trigger_next(specx, v(nw), v(stt))); tr = None if t is None else t.to_real()
                    else:
                        tr, _ = run(TrigTime.timer_trigger_next(specx, nw, stt))
                    n += 1
                    if tr != exp: bad.append(("TTN", shim, str(specx), str(nw), str(tr), str(exp)))
                    if tr is None: break
                    nw = tr + rdt.timedelta(microseconds=1)
        use(False)
    detail(shim_validation_cases=n, disagreements=bad[:10])
    return n > 200 and not bad


# ---------------------------------------------------------------------------------------------- obligations
QUICK_DATES = ["tue", "leapday", "dec31", "dst_end"]


def obligations(tier):
    o = []
    dates = QUICK_DATES if tier == "quick" else list(DATES)
    symx = "now = {date} + x, x in [0, 24h) microseconds (symbolic int)"
    for name, (desc, recurring) in ONCE.items():
        spec = "once(" + fmt_dt(desc) + ")"
        sun = "sun" in spec
        for dn in dates:
            if sun and tier == "quick" and dn not in ("tue", "dst_end"): continue
            symstart = desc[1] is not None and desc[1][0] == "now"
            prm = {"spec": name, "date": dn, "region": "main", "symstart": symstart}
            reg = _static_region(desc, DATES[dn]) if recurring else "main"
            if name == "md_feb29" and not _leap(DATES[dn].year):
                o.append(Obl(f"C06.once_feb29.{dn}", __name__, "once", dict(prm, region="any"), timeout=60, tier="quick" if dn in QUICK_DATES else "thorough",
                             desc=f"'{spec}' evaluated in a non-leap year: the next leap day's instant is expected", sym=symx.format(date=DATES[dn]), twin=False,
                             known="C06.md_feb29_nonleap", classifier="classify_feb29"))
                continue
            if reg != "recur":
              o.append(Obl(f"C06.once.{name}.{dn}", __name__, "once", prm, timeout=120 if sun else 60, tier="quick" if dn in QUICK_DATES else "thorough",
                         desc=f"timer_trigger_next('{spec}') = earliest denoted instant strictly after now, None if there is none" + (" (outside the recorded once_recur region)" if recurring else ""),
                         sym=symx.format(date=DATES[dn]) + ("; start-up time = previous day + y, y symbolic in [0,24h)" if symstart else ""),
                         twin=(dn == "tue" and name != "ymd_past"), encodes=("trigger.TrigTime.timer_trigger_next", "trigger.TrigTime.parse_date_time")))
            if recurring and reg != "main":
                prm2 = dict(prm, region="recur")
                o.append(Obl(f"C06.once_recur.{name}.{dn}", __name__, "once", prm2, timeout=60, tier="quick" if dn in QUICK_DATES else "thorough",
                             desc=f"'{spec}' evaluated after this week's/this year's instant: next week's / next year's instant expected",
                             sym=symx.format(date=DATES[dn]), twin=False, known="C06.once_recur", classifier="classify_once_recur"))
    for name, (sd, secs, istr, ed) in PERIOD.items():
        spec = "period(" + fmt_dt(sd) + ", " + istr + ("" if ed is None else ", " + fmt_dt(ed)) + ")"
        sun = "sun" in spec
        for dn in dates:
            if sun and tier == "quick" and dn not in ("tue",): continue
            symstart = "now" in spec
            o.append(Obl(f"C06.period.{name}.{dn}", __name__, "period", {"spec": name, "date": dn, "symstart": symstart}, timeout=180 if sun else 90,
                         tier="quick" if dn in QUICK_DATES else "thorough",
                         desc=f"timer_trigger_next('{spec}') = start + j*interval, the earliest one strictly after now (within the end bound), exact arithmetic",
                         sym=symx.format(date=DATES[dn]) + ("; start-up time symbolic within the previous day" if symstart else ""),
                         twin=(dn == "tue"), encodes=("trigger.TrigTime.timer_trigger_next", "trigger.parse_time_offset")))
    for name in LISTS:
        for dn in (["tue"] if tier == "quick" else dates):
            o.append(Obl(f"C06.list.{name}.{dn}", __name__, "speclist", {"spec": name, "date": dn}, timeout=120, tier="quick" if dn == "tue" else "thorough",
                         desc=f"next time of the list {LISTS[name]} is the minimum of the single-spec next times", sym=symx.format(date=DATES[dn]), twin=(dn == "tue")))
    for i, spec in enumerate(META):
        for dn in (["tue"] if tier == "quick" else ["tue", "leapday", "dst_end"]):
            o.append(Obl(f"C06.meta.{i}.{dn}", __name__, "metamorphic", {"spec": i, "date": dn}, timeout=240, tier="quick" if dn == "tue" else "thorough",
                         desc=f"'{spec}': next(now) > now; next(t) == next(now) for all now <= t < next(now); next(next(now)) > next(now)",
                         sym=symx.format(date=DATES[dn]) + "; t in [x, 3 days) symbolic", twin=(dn == "tue")))
    for name in RUN_SPECS:
        for legacy in (False, True):
            o.append(Obl(f"C06.run.{name}.{'legacy' if legacy else 'default'}", __name__, "run_loop", {"spec": name, "legacy": legacy, "maxend": 4500000 if tier == "quick" else 10500000}, timeout=600 if tier == "quick" else 1800,
                         desc=f"@time_trigger({RUN_SPECS[name][0]}) on the virtual clock: one run per denoted instant with trigger_time equal to it, not more than 1us early, "
                              "none after removal; startup/shutdown entries exactly once",
                         sym="early wake-up of the first two (quick) / three (thorough) timers in [0, 2 ms] (microseconds, symbolic); observation end time in [0, 4.5 s] (quick) / [0, 10.5 s] symbolic",
                         twin=(name == "period"),
                         encodes=(("trigger.TrigInfo.trigger_watch",) if legacy else ("decorators.timing.TimeTriggerDecorator._cycle",)) + ("trigger.TrigTime.timer_trigger_next",)))
    for order in ("cron_only", "cron_last", "cron_first"):
        for dn in (["dst_end", "dst_start"] if tier == "quick" else ["dst_end", "dst_start", "tue", "dec31"]):
            o.append(Obl(f"C06.cron.{order}.{dn}", __name__, "cron_next", {"order": order, "date": dn}, timeout=300, tier="quick" if dn.startswith("dst") else "thorough",
                         desc="cron(): the chosen occurrence is the first croniter candidate with positive real (UTC) elapsed time; next_time_adj - now equals that elapsed time; "
                              "in a list the minimum over specs wins and next_time_adj belongs to the winning spec",
                         sym="now time-of-day x; three increasing cron candidates (gaps symbolic); one +-1h UTC-offset transition at a symbolic local instant within 3 days; direction bool",
                         twin=(order == "cron_last" and dn == "dst_end"), encodes=("trigger.TrigTime.timer_trigger_next",)))
    bound = 86400 * 10**6 if tier == "quick" else 7 * 86400 * 10**6      # (400 days: the solver does not finish within 30 min for the 90/300/420 s intervals)
    for per, tmo in ((90.0, 300), (300.0, 300), (420.0, 300), (3600.0, 200), (1800.0, 300), (5400.0, 300), (86400.0, 200), (604800.0, 200)):
        o.append(Obl(f"C06.fp.{per:g}s", __name__, "fp_lemma", {"period": per, "max_us": bound, "solver_timeout": tmo * (1 if tier == "quick" else 4)},
                     timeout=tmo * (1 if tier == "quick" else 4) + 30, engine="smt", twin=False, tier="quick",
                     desc=f"IEEE-754 evaluation of the period kernel (secs = period * (1.0 + floor(delta/period)); timedelta(seconds=secs)) equals the exact model for interval {per:g}s",
                     sym=f"now - start = x microseconds, 64-bit vector, x < {bound} (QF_BVFP, cvc5)"))
    o.append(Obl("C06.fp.0.1s", __name__, "fp_lemma", {"period": 0.1, "max_us": 86400 * 10**6, "solver_timeout": 900}, timeout=930, engine="smt", twin=False, tier="thorough",
                 desc="IEEE-754 evaluation of the period kernel equals the exact model for interval 0.1s", sym="x < 1 day (QF_BVFP, cvc5)",
                 known="C06.period_fp", classifier="classify_period_fp"))
    return o


# ---------------------------------------------------------------------------------------------- cron(): DST-adjusted wait, lists
class _FakeCron:
    """croniter stand-in: get_next() yields the given strictly increasing candidates (all > now); is_valid() is True.
    What a cron expression denotes is croniter's business (trusted); the property here is what pyscript does with the sequence."""
    seq = []; seen = []
    def __init__(self, expr, start, ret_type=None):
        _FakeCron.seen.append((expr, start)); self.i = 0
    def get_next(self, *a):
        v = _FakeCron.seq[self.i]; self.i += 1
        return v
    @staticmethod
    def is_valid(expr): return True
    @staticmethod
    def match(expr, now): return True


def cron_next(x: int, c1: int, g2: int, g3: int, tr: int, fwd: bool, o1: int) -> bool:
    """
    pre: 0 <= x < DAY and 0 < c1 <= 2 * DAY and 0 < g2 <= 7200000000 and 0 < g3 <= DAY and 0 <= tr < 3 * DAY and 0 <= o1 <= 2 * DAY
    post: _
    """
    # now = D + x; cron candidates now+c1 < +g2 < +g3 (local wall-clock instants); one UTC-offset transition at local instant D + tr:
    # offset jumps by +1h (fwd, spring) or -1h (autumn).  A once() instant at now + o1 competes (o1 == 0: no once spec).
    from custom_components.pyscript import trigger
    today = DATES[P("date")]; D = ord2us(today); now = D + x
    order = P("order")           # "cron_last" | "cron_first" | "cron_only"
    H = 3600 * 10**6
    cands = [now + c1, now + c1 + g2, now + c1 + g2 + g3, now + c1 + g2 + g3 + 10 * DAY]
    def off(us):                 # UTC offset (microseconds) of a local wall-clock instant
        if fwd: return (-8 * H) if us < D + tr else (-7 * H)
        return (-7 * H) if us < D + tr else (-8 * H)
    with TimeEnv() as te:
        mk = te.mk
        class _Loc:
            def __init__(s, v): s.v = v
            def astimezone(s, tz): return s.v - _td(off(te.us(s.v)))
        def _td(us): return vdt.timedelta._mk(us) if te.sym else rdt.timedelta(microseconds=us)
        class _DtUtil:
            UTC = "UTC"
            @staticmethod
            def as_local(v): return _Loc(v)
        saved = (trigger.croniter, trigger.dt_util)
        trigger.croniter = _FakeCron; trigger.dt_util = _DtUtil
        _FakeCron.seq = [mk(c) for c in cands]; _FakeCron.seen = []
        try:
            once_t = None
            specs = ["cron(5 4 * * *)"]
            if order != "cron_only":
                # a fixed-date once() whose instant is D + 12:00 + o1-dependent? keep it simple: the competing instant is an explicit date/time literal
                once_t = D + 43200 * 10**6
                ospec = "once(%d/%d/%d 12:00)" % (today.year, today.month, today.day)
                specs = [ospec] + specs if order == "cron_last" else specs + [ospec]
            got, adj = te.next(specs, now, STARTUP_US)
        finally:
            trigger.croniter, trigger.dt_util = saved
    # oracle: first candidate with positive real elapsed time
    chosen = None; delta = None
    for c in cands:
        d = (c - off(c)) - (now - off(now))
        if d > 0:
            chosen = c; delta = d; break
    exp_t, exp_adj = chosen, now + delta
    if once_t is not None and once_t > now and once_t < chosen:
        exp_t, exp_adj = once_t, once_t
    if not symbolic_mode():
        detail(specs=specs, now=str(us2real(now)), got=str(got and us2real(got)), adj=str(adj and us2real(adj)), exp=str(us2real(exp_t)), exp_adj=str(us2real(exp_adj)))
    if once_t is not None and once_t == chosen:
        # same instant denoted by both specs: either spec's wait is acceptable (the loops re-check the wall clock after waking)
        return verdict(got == exp_t and (adj == exp_adj or adj == once_t), True)
    return verdict(got == exp_t and adj == exp_adj, True)


# ---------------------------------------------------------------------------------------------- layer 3: the run loops on the virtual clock
RUN_SPECS = {
    # name: (decorator arguments, expected instants as microseconds after start [start = 12:00:00], startup run?, shutdown run?)
    "period": ('"period(now + 1s, 2s)"', [1, 3, 5, 7, 9], False, False),
    "once2": ('"once(12:00:02)", "once(12:00:04.5)"', [2, 4.5], False, False),
    "period_end": ('"period(12:00:01, 1.5s, 12:00:05)"', [1, 2.5, 4], False, False),
    "startup_once": ('"startup", "once(12:00:03)"', [3], True, False),
    "shutdown": ('"shutdown", "once(12:00:02)"', [2], False, True),
}
RUN_SRC = '''
calls = []
@time_trigger(%s)
def g(**kw):
    global calls
    calls += [(T(), kw["trigger_type"], TT(kw["trigger_time"]))]
'''


def run_loop(e1: int, e2: int, e3: int, end: int) -> bool:
    """
    pre: 0 <= e1 <= 2000 and 0 <= e2 <= 2000 and 0 <= e3 <= 2000 and 0 <= end <= P("maxend")
    post: _
    """
    if P("maxend") < 6000000:
        e3 = 0
    # timers may fire up to 2 ms early (e1..e3 for the first three sleeps): the function still runs exactly once per denoted instant,
    # labelled with that instant, never more than 1 us before it; startup/shutdown entries run exactly once at start/stop
    from vlib.world import mkworld, T0, SEC, BASE_DATE
    args, inst, st, sh = RUN_SPECS[P("spec")]
    with notrace():
        w = mkworld(P("legacy"))
    try:
        early = [e1, e2, e3]
        w.env.early = lambda: early.pop(0) if early else 0
        base = w.env.dt_now()
        def TT(x):
            if isinstance(x, str): return x
            return (x.us - base.us) if hasattr(x, "us") else (x - base) // rdt.timedelta(microseconds=1)
        g = w.load("file.x", RUN_SRC % args, extra={"T": lambda: w.env.t, "TT": TT})
        w.advance(end)
        calls = list(g.global_sym_table["calls"])
        from vlib.base import GlobalContextMgr
        GlobalContextMgr.delete("file.x"); w.settle()
        w.advance(end + 3 * SEC)
        after = list(g.global_sym_table["calls"])
    finally:
        w.close()
    exp = [int(i * SEC) for i in inst if int(i * SEC) <= end]
    timed = [c for c in calls if c[2] not in ("startup", "shutdown")]
    ok = [c[2] for c in timed] == exp and all(c[1] == "time" for c in calls)
    ok = ok and all(c[0] >= c[2] - 1 and c[0] <= c[2] + 2000 for c in timed)
    ok = ok and [c for c in calls if c[2] == "startup"] == ([(0, "time", "startup")] if st else [])
    ok = ok and not [c for c in calls if c[2] == "shutdown"]
    extra = after[len(calls):]
    ok = ok and [c[2] for c in extra] == (["shutdown"] if sh else [])       # nothing runs after removal, except the shutdown entry, once
    if not symbolic_mode():
        detail(calls=calls, after_removal=extra, expected=exp)
    return verdict(ok, len(timed) > 0)
