"""C07 - @state_active / @time_active / hold_off gate every trigger correctly.

Layer 1: TrigTime.timer_active_check executed symbolically: the evaluation time is a microsecond-exact solver variable, so both end
         points of every window (and +-1us) are decided, not sampled; cron() entries match a symbolic bool.
Layer 2: the path from the decorators to that function in both subsystems, on the full-stack world with symbolic occurrence times.
"""
import datetime as rdt

from vlib import ctx, vdt
from vlib.ctx import P, verdict, detail
from vlib.obl import Obl
from vlib.base import symbolic_mode, notrace
from vlib.timeenv import TimeEnv, ord2us, DAY, us2real
from obligations.c06 import DATES, STARTUP_US, tod_us, off_us, fmt_dt, dplus, DOW

LEVEL = "model_checking"
EXPLANATION = ("symbolic execution of the real timer_active_check with the evaluation time as a microsecond-exact solver variable against an independent "
               "window oracle; decorator-to-function path of both subsystems on the virtual clock with symbolic occurrence times")
BOUNDS = {"quick": "time of day x in [0,24h) us on 3 dates; 24 specification lists of 1-4 entries; 3 occurrences with symbolic gaps in (0, 4 s] for the decorator path",
          "thorough": "6 dates; 4 occurrences"}
OUTSIDE = "cron field semantics (croniter trusted: match result is a symbolic bool); sunrise/sunset astronomy; dates other than the enumerated ones"
ASSUMPTIONS = [
    "datetime modelled as integer microseconds (vlib.vdt), validated in C06's preflight; counterexamples replayed on the standard datetime",
    "croniter.match/is_valid replaced by a stub returning a symbolic bool and checking that `now` and the expression arrive unchanged",
    "full-stack obligations: stub Home Assistant + harness scheduler + virtual clock (DESIGN.md section 3); counterexamples replayed a second time on a real asyncio loop",
]


# ---------------------------------------------------------------------------------------------- layer 1
def resolve(desc, base, start_us):
    """instant (us) a datetime descriptor denotes when parsed relative to calendar day `base` (concrete)"""
    date, tm, off = desc
    if tm is not None and tm[0] == "now":
        return start_us + off_us(off)
    if date is None: d = base
    elif date[0] == "dow":
        d = base
        while d.isoweekday() % 7 != date[1]: d = dplus(d, 1)
    elif date[0] == "md": d = rdt.date(base.year, date[1], date[2])
    elif date[0] == "ymd": d = rdt.date(date[1], date[2], date[3])
    elif date[0] == "today": d = base
    elif date[0] == "tomorrow": d = dplus(base, 1)
    return ord2us(d) + tod_us(tm, d) + off_us(off)


def T(h, m, s=None): return (None, ("hms", h, m, s), None)


# entry: ("range", negated, start descriptor, end descriptor) | ("cron", negated, expr)
ACTIVE = {
    "daily": [("range", False, T(8, 0, 30), T(18, 15))],
    "daily_not": [("range", True, T(8, 0), T(18, 0))],
    "wrap": [("range", False, T(22, 0), T(6, 0))],
    "wrap_not": [("range", True, T(20, 0), T(10, 0))],
    "point": [("range", False, T(12, 0), T(12, 0))],
    "two_pos": [("range", False, T(1, 0), T(4, 0)), ("range", False, T(22, 0), T(0, 0))],
    "pos_neg": [("range", False, T(8, 0), T(18, 0)), ("range", True, T(12, 0), T(13, 0))],
    "two_neg": [("range", True, T(2, 0), T(3, 0)), ("range", True, T(14, 0), T(15, 30))],
    "four": [("range", False, T(1, 0), T(4, 0)), ("range", True, T(2, 0), T(3, 0)), ("range", False, T(22, 0), T(0, 0)), ("range", True, T(3, 30), T(3, 45))],
    "neg_covers": [("range", False, T(9, 0), T(10, 0)), ("range", True, T(8, 0), T(11, 0))],
    "dated": [("range", False, (("ymd", 2019, 9, 3), ("hms", 8, 0, None), None), (("ymd", 2019, 9, 3), ("hms", 18, 0, None), None))],
    "dated_multi": [("range", False, (("ymd", 2019, 9, 2), ("hms", 8, 0, None), None), (("ymd", 2019, 9, 4), ("hms", 6, 0, None), None))],
    "dated_not": [("range", True, (("ymd", 2019, 9, 3), ("hms", 8, 0, None), None), (("ymd", 2019, 9, 3), ("hms", 18, 0, None), None))],
    "sun": [("range", False, (None, ("sunrise",), None), (None, ("sunset",), None))],
    "sun_off": [("range", False, (None, ("sunrise",), (20, "m")), (None, ("sunset",), (-20, "min")))],
    "sun_not": [("range", True, (None, ("sunset",), None), (None, ("sunrise",), None))],
    "now_rel": [("range", False, (None, ("now",), (1, "min")), (None, ("now",), (1, "hours")))],
    "weekday": [("range", False, (("dow", 2), ("hms", 8, 0, None), None), (("dow", 2), ("hms", 18, 0, None), None))],
    "frac": [("range", False, T(6, 0, 0.5), T(6, 0, 1.25))],
    "cron": [("cron", False, "* 6 * * *")],
    "cron_not": [("cron", True, "0 6 3 9 *")],
    "cron_range": [("cron", False, "*/5 * * * *"), ("range", True, T(12, 0), T(13, 0))],
    "two_cron": [("cron", False, "0 * * * *"), ("cron", True, "0 12 * * *")],
    "range_cron_pos": [("range", False, T(8, 0), T(9, 0)), ("cron", False, "30 * * * *")],
}


def spec_strings(entries):
    out = []
    for e in entries:
        s = ("not " if e[1] else "") + (f"range({fmt_dt(e[2])}, {fmt_dt(e[3])})" if e[0] == "range" else f"cron({e[2]})")
        out.append(s)
    return out


class _CronStub:
    answers = []; log = []
    def __init__(self, *a, **k): pass
    @staticmethod
    def is_valid(expr): return True
    @staticmethod
    def match(expr, now):
        _CronStub.log.append((expr, now))
        return _CronStub.answers.pop(0)


def active(x: int, m1: bool, m2: bool) -> bool:
    """
    pre: 0 <= x < DAY
    post: _
    """
    from custom_components.pyscript import trigger
    entries = ACTIVE[P("spec")]; today = DATES[P("date")]; now = ord2us(today) + x
    start_up = ord2us(rdt.date(2019, 9, 3)) + 13 * 3600 * 10**6 if P("spec") == "now_rel" else STARTUP_US
    with notrace():
        specs = spec_strings(entries)
        wins = []
        for e in entries:
            if e[0] == "range":
                s = resolve(e[2], today, start_up)
                e_ = resolve(e[3], rdt.date.fromordinal(rdt.date(2000, 1, 1).toordinal() + s // DAY), start_up)
                wins.append((s, e_))
            else:
                wins.append(None)
    ms = [m1, m2]; pos = []; neg = []; mi = 0
    for e, wdw in zip(entries, wins):
        if e[0] == "range":
            s, e_ = wdw
            inside = (s <= now <= e_) if s <= e_ else (now >= s or now <= e_)
        else:
            inside = ms[mi]; mi += 1
        (neg if e[1] else pos).append(inside)
    exp = (any(pos) if pos else True) and not any(neg)
    with TimeEnv() as te:
        saved = trigger.croniter
        trigger.croniter = _CronStub; _CronStub.answers = [m1, m2]; _CronStub.log = []
        try:
            got = te.active(specs if len(specs) > 1 or P("aslist") else specs[0], now, start_up)
        finally:
            trigger.croniter = saved
        cron_ok = all(te.us(n) == now for _, n in _CronStub.log) and [e_ for e_, _ in _CronStub.log] == [e[2] for e in entries if e[0] == "cron"][:len(_CronStub.log)]
    if not symbolic_mode():
        detail(specs=specs, now=str(us2real(now)), got=got, expected=exp)
    return verdict(bool(got) == exp and cron_ok, exp)


# ---------------------------------------------------------------------------------------------- layer 2: decorators -> guard -> run
SRC = '''
calls = []
{decorators}
def f(**kw):
    global calls
    calls += [(T(), kw.get("trigger_type"))]

@event_trigger("direct")
def h(**kw):
    f(direct=1)
'''
# virtual start is 2020-06-01 12:00:00 (a Monday); windows are placed around it
GUARDS = {
    # name: (decorator lines, window predicate on t (us after start), hold_off seconds or 0, uses state_active)
    "mixed": ('@time_active("range(12:00:01, 12:00:09)", "not range(12:00:03, 12:00:05)")', lambda t: 1 * 10**6 <= t <= 9 * 10**6 and not (3 * 10**6 <= t <= 5 * 10**6), 0, False),
    "two_neg": ('@time_active("not range(12:00:02, 12:00:03)", "not range(12:00:05, 12:00:06)")', lambda t: not (2 * 10**6 <= t <= 3 * 10**6) and not (5 * 10**6 <= t <= 6 * 10**6), 0, False),
    "two_pos": ('@time_active("range(12:00:01, 12:00:02)", "range(12:00:04, 12:00:06)")', lambda t: 1 * 10**6 <= t <= 2 * 10**6 or 4 * 10**6 <= t <= 6 * 10**6, 0, False),
    "holdoff": ('@time_active(hold_off=2)', lambda t: True, 2, False),
    "range_holdoff": ('@time_active("range(12:00:02, 12:00:10)", hold_off=1.5)', lambda t: 2 * 10**6 <= t <= 10 * 10**6, 1.5, False),
    "state_active": ('@state_active("pyscript.b == \'1\'")', lambda t: True, 0, True),
    "state_active_holdoff": ('@state_active("pyscript.b == \'1\'")\n@time_active(hold_off=2)', lambda t: True, 2, True),
    "none": ('', lambda t: True, 0, False),
}
TRIGGERS = {
    "state": '@state_trigger("pyscript.a")',
    "event": '@event_trigger("ev")',
    # a pending time trigger makes the loops take their timed-wait path: the guard must see the occurrence time, not the time the wait began
    "state_time": '@state_trigger("pyscript.a")\n@time_trigger("once(12:00:40)")',
    "event_time": '@event_trigger("ev")\n@time_trigger("once(12:00:40)")',
}


def guarded(g1: int, g2: int, g3: int, g4: int, b1: bool, b2: bool, b3: bool, b4: bool) -> bool:
    """
    pre: 1 <= g1 <= 4000000 and 1 <= g2 <= 4000000 and 1 <= g3 <= 4000000 and 1 <= g4 <= 4000000
    post: _
    """
    from vlib.world import mkworld, SEC
    deco, window, hold, uses_b = GUARDS[P("guard")]
    k = P("k")
    gaps = [g1, g2, g3, g4][:k]; bs = [b1, b2, b3, b4][:k]
    hold_us = int(hold * 10**6)
    # exclude exact ties with the hold-off boundary (the property speaks of "less than N seconds")
    acc = None
    with notrace():          # concrete set-up
        w = mkworld(P("legacy"))
    try:
        with notrace():
            w.set_state("pyscript.b", "0"); w.set_state("pyscript.a", "init")        # before the trigger exists: not occurrences
            g = w.load("file.x", SRC.format(decorators=TRIGGERS[P("trigger")] + "\n" + deco), extra={"T": lambda: w.env.t})
        t = 0; exp = []; last = None
        for i, (gap, b) in enumerate(zip(gaps, bs)):
            t = t + gap
            w.advance(t)
            if uses_b:
                w.set_state("pyscript.b", "1" if b else "0")
            if P("trigger").startswith("state"):
                w.set_state("pyscript.a", "v%d" % i)
            else:
                w.fire("ev", {"n": i})
            ok_guard = window(t) and (b or not uses_b)
            if ok_guard and hold_us and last is not None and t - last == hold_us:
                return verdict(True, False)          # tie with the hold-off boundary: outside the property
            if ok_guard and (not hold_us or last is None or t - last >= hold_us):
                exp.append((t, P("trigger").split("_")[0])); last = t
        # a direct call bypasses every guard
        w.advance(t + 13 * SEC)
        w.fire("direct", {})
        exp.append((t + 13 * SEC, None))
        calls = list(g.global_sym_table["calls"])
    finally:
        w.close()
    if not symbolic_mode():
        detail(calls=calls, expected=exp)
    return verdict(calls == exp, len(exp) > 1)


def classify_new_time_active(args, detail_, info):
    """accept only: runs that the whole-list predicate excludes but a single positive/negated argument alone admits (superset of the expected runs)"""
    calls = [tuple(c) for c in detail_.get("calls", [])]; exp = [tuple(e) for e in detail_.get("expected", [])]
    return set(exp) <= set(calls) and len(calls) > len(exp)


def obligations(tier):
    o = []
    dates = ["tue", "dst_end", "leapday"] if tier == "quick" else ["tue", "dst_end", "leapday", "dec31", "sat", "dst_start"]
    for name, entries in ACTIVE.items():
        specs = spec_strings(entries)
        sun = "sun" in " ".join(specs)
        for dn in dates:
            if ("dated" in name or name == "weekday" or name == "now_rel") and dn != "tue" and tier == "quick": continue
            if sun and dn == "leapday" and tier == "quick": continue
            o.append(Obl(f"C07.active.{name}.{dn}", __name__, "active", {"spec": name, "date": dn, "aslist": name in ("daily_not", "cron")},
                         timeout=120, tier="quick" if dn in ("tue", "dst_end", "leapday") else "thorough",
                         desc=f"timer_active_check({specs}) is true iff now lies in at least one positive window (or none is given) and in no negated one; end points inclusive; end<start wraps",
                         sym=f"now = {DATES[dn]} + x, x in [0,24h) microseconds; cron match results symbolic bools", twin=(dn == "tue" and name not in ("dated_not", "neg_covers")),
                         encodes=("trigger.TrigTime.timer_active_check",)))
    k = 3 if tier == "quick" else 4
    for gname in GUARDS:
        for trig in TRIGGERS:
            for legacy in (False, True):
                if tier == "quick" and trig == "event" and gname not in ("mixed", "holdoff", "state_active"): continue
                if trig.endswith("_time") and gname not in (("mixed", "range_holdoff") if tier == "quick" else ("mixed", "range_holdoff", "two_neg", "state_active_holdoff")): continue
                known = ""
                o.append(Obl(f"C07.path.{gname}.{trig}.{'legacy' if legacy else 'default'}", __name__, "guarded",
                             {"guard": gname, "trigger": trig, "legacy": legacy, "k": k}, timeout=900, tier="quick",
                             desc=f"{TRIGGERS[trig]} {GUARDS[gname][0]!r}: an occurrence runs the function iff the active expression is truthy, the occurrence time lies in the "
                                  "window predicate of the WHOLE argument list, and it is not less than hold_off after the last accepted one; a direct call bypasses the guards",
                             sym=f"{k} occurrences, gaps in (0, 4 s] microseconds symbolic; value of the @state_active entity per occurrence symbolic",
                             real_loop=True, twin=(gname in ("mixed", "holdoff", "state_active") and trig == "state"),
                             encodes=(("trigger.TrigInfo.trigger_watch",) if legacy else ("decorator.FunctionDecoratorManager.dispatch",))))
    return o
