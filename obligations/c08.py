"""C08 - event, MQTT and webhook triggers deliver each message exactly once; outgoing events/state/service calls carry the run's context.

Full stack.  The sequence of fired events (type, payload, with or without a Home Assistant context, burst or settled, whether earlier runs
are still sleeping) is symbolic; filters are evaluated by the real interpreter on the symbolic payload.
"""
from vlib import ctx
from vlib.ctx import P, verdict, detail
from vlib.obl import Obl
from vlib.base import symbolic_mode, notrace

LEVEL = "model_checking"
EXPLANATION = ("symbolic execution of the real Event/Mqtt/Webhook listeners and queues (legacy) and EventTriggerDecorator/MqttTriggerDecorator/WebhookTriggerDecorator "
               "(default) plus call_action / FunctionDecoratorManager.dispatch and Function.event_fire/service_call/State.set through the full stack")
BOUNDS = {"quick": "2 fired events (type in 3, payload n in [1,3], context yes/no, burst yes/no); earlier runs sleeping; 2 MQTT / webhook messages",
          "thorough": "3 events (first payload in [1,2]; third: any type, payload 1, no explicit context) / 2 messages (3 messages did not finish within 900 s per obligation)"}
OUTSIDE = "Home Assistant's bus dispatch itself, the MQTT transport / paho, aiohttp request parsing (request.json()/post() are stubs), more events than the bound"
ASSUMPTIONS = [
    "stub bus: listeners called in registration order, coroutine listeners started eagerly (HA 2024+); mqtt.async_subscribe / webhook.async_register are recording stubs",
    "harness scheduler mirrors asyncio's FIFO ready queue; counterexamples replayed on a real asyncio loop",
]

SRC = '''
calls = []
@event_trigger("ev1", "n > 1")
def f1(**kw):
    global calls
    calls += [("f1", kw["trigger_type"], kw["event_type"], kw.get("n"), kw.get("tag"), CID(kw.get("context")))]
    task.sleep(5)
    event.fire("out", src="f1", n=kw.get("n"))
    pyscript.out = "x%s" % kw.get("n")
    service.call("test", "svc", n=kw.get("n"))

@event_trigger("ev3", "n - 1")
def f3(**kw):
    global calls
    calls += [("f3", kw["trigger_type"], kw["event_type"], kw.get("n"), kw.get("tag"), CID(kw.get("context")))]

@event_trigger("ev2", kwargs={"tag": "T", "n": -1})
@event_trigger("ev1")
def f2(**kw):
    global calls
    calls += [("f2", kw["trigger_type"], kw["event_type"], kw.get("n"), kw.get("tag"), CID(kw.get("context")))]
'''
TYPES = ["ev1", "ev2", "ev3"]


def events(t1: int, n1: int, c1: bool, b1: bool, t2: int, n2: int, c2: bool, b2: bool, t3: int, n3: int, c3: bool, b3: bool, t4: int, n4: int, c4: bool) -> bool:
    """
    pre: 0 <= t1 <= 2 and 0 <= t2 <= 2 and 0 <= t3 <= 2 and 0 <= t4 <= 2
    pre: 1 <= n1 <= 3 and 1 <= n2 <= 3 and 1 <= n3 <= 3 and 1 <= n4 <= 3 and (P("t1") is None or t1 == P("t1"))
    pre: P("k") < 3 or (n3 == 1 and not c3 and n1 <= 2)
    post: _
    """
    from vlib.world import mkworld, SEC
    from homeassistant.core import Context
    k = P("k")
    evs = [(t1, n1, c1, b1), (t2, n2, c2, b2), (t3, n3, c3, b3), (t4, n4, c4, False)][:k]
    with notrace():
        w = mkworld(P("legacy"))
    try:
        with notrace():
            svc_calls = []
            async def svc(call): svc_calls.append(call)
            w.hass.services.async_register("test", "svc", svc)
            g = w.load("file.x", SRC, extra={"CID": lambda c: None if c is None else c.parent_id if False else c.id})
        exp1 = []; exp2 = []; exp3 = []; ctxs = []
        batch = []
        def flush():
            if batch:
                fns = list(batch); w.do(lambda: [f() for f in fns]); del batch[:]
            w.settle()
        for i, (ti, n, withctx, burst) in enumerate(evs):
            et = TYPES[ti]
            c = Context(id="ctx%d" % i) if withctx else None
            ctxs.append(c)
            batch.append(lambda et=et, n=n, c=c: w.hass.bus.async_fire(et, {"n": n}, context=c))
            # HA gives every event a context; the stub creates a fresh one when none is passed
            if et == "ev1":
                if n > 1: exp1.append(("f1", "event", "ev1", n, None, i))
                exp2.append(("f2", "event", "ev1", n, None, i))
            elif et == "ev2":
                exp2.append(("f2", "event", "ev2", -1, "T", i))
            elif n - 1:                      # filter result is an int: any falsy value blocks the run
                exp3.append(("f3", "event", "ev3", n, None, i))
            if not burst: flush()
        flush()
        calls = [tuple(c) for c in g.global_sym_table["calls"]]
        fired = [e for e in w.hass.bus.fired if e.event_type in TYPES]
        ids = [e.context.id for e in fired]
        got1 = [c for c in calls if c[0] == "f1"]; got2 = [c for c in calls if c[0] == "f2"]
        full = lambda exp: [c[:5] + (ids[c[5]],) for c in exp]
        if P("part") == "cross_type_order":
            # runs of one function started by decorators for DIFFERENT event types keep the order in which the events were fired
            ok = got2 == full(exp2)
        else:
            # per function and event type: exactly the matching events, in order, each with its own data and context
            ok = got1 == full(exp1)
            for et in ("ev1", "ev2"):
                ok = ok and [c for c in got2 if c[2] == et] == [c for c in full(exp2) if c[2] == et]
            ok = ok and len(got2) == len(exp2) and [c for c in calls if c[0] == "f3"] == full(exp3)
        # the sleeping f1 runs resume: each emits exactly the given parameters, under a context whose parent is its occurrence's context
        n_out_before = len([e for e in w.hass.bus.fired if e.event_type == "out"])
        w.advance(6 * SEC)
        outs = [e for e in w.hass.bus.fired if e.event_type == "out"]
        ok = ok and n_out_before == 0 and [dict(e.data) for e in outs] == [{"src": "f1", "n": c[3]} for c in exp1]
        ok = ok and [e.context.parent_id for e in outs] == [ids[c[5]] for c in exp1]
        ok = ok and [(s.data, s.context.parent_id) for s in svc_calls] == [({"n": c[3]}, ids[c[5]]) for c in exp1]
        st = w.hass.states.get("pyscript.out")
        if exp1:
            cur_val = None; cur_parent = None
            for c in exp1:                          # (Home Assistant drops a write that changes nothing: its context is not recorded)
                if "x%s" % c[3] != cur_val: cur_val = "x%s" % c[3]; cur_parent = ids[c[5]]
            ok = ok and st is not None and st.state == cur_val and st.context.parent_id == cur_parent
        # the run's own context is a fresh one (not the occurrence's), one per run
        run_ctx = [e.context.id for e in outs]
        ok = ok and len(set(run_ctx)) == len(run_ctx) and not (set(run_ctx) & set(ids))
    finally:
        w.close()
    if not symbolic_mode():
        detail(events=evs, calls=calls, exp1=exp1, exp2=exp2, outs=[(dict(e.data), e.context.parent_id) for e in outs])
    return verdict(ok, len(exp1) > 0)


def classify_order(args, detail_, info):
    """accept only: same multiset of f2 runs, each event type in order - only the interleaving across the two event types differs"""
    calls = [tuple(c) for c in detail_.get("calls", []) if c[0] == "f2"]
    exp = detail_.get("exp2", [])
    if len(calls) != len(exp): return False
    for et in ("ev1", "ev2"):
        if [c[:5] for c in calls if c[2] == et] != [tuple(c[:5]) for c in exp if c[2] == et]: return False
    return True


# ---------------------------------------------------------------------------------------------- MQTT / webhook
MSRC = '''
calls = []
@mqtt_trigger("t/one", "payload_obj['v'] > 1")
def m(**kw):
    global calls
    calls += [("m", kw["trigger_type"], kw["topic"], kw["payload"], kw["payload_obj"]["v"], kw["qos"], kw["retain"])]
    task.sleep(5)

@mqtt_trigger("t/+", kwargs={"extra": 3})
def m2(**kw):
    global calls
    calls += [("m2", kw["trigger_type"], kw["topic"], kw["payload"], kw.get("extra"))]

@webhook_trigger("hook1", "payload['v'] != 0", kwargs={"extra": 1})
def h(**kw):
    global calls
    calls += [("h", kw["trigger_type"], kw["webhook_id"], kw["payload"]["v"], kw["extra"])]
'''


class FakeMqtt:
    def __init__(self): self.subs = []
    async def async_subscribe(self, hass, topic, handler, encoding="utf-8", qos=0):
        e = (topic, handler); self.subs.append(e)
        return lambda: self.subs.remove(e)


class FakeWebhook:
    SUPPORTED_METHODS = ("GET", "HEAD", "POST", "PUT")
    def __init__(self): self.reg = {}
    def async_register(self, hass, domain, name, wid, handler, local_only=True, allowed_methods=None): self.reg[wid] = handler
    def async_unregister(self, hass, wid): self.reg.pop(wid, None)


class Msg:
    def __init__(self, topic, payload): self.topic = topic; self.payload = payload; self.qos = 0; self.retain = False


class Req:
    def __init__(self, d): self.d = d; self.headers = {"Content-Type": "application/json"}; self.method = "POST"
    async def json(self): return self.d


def messages(k1: int, v1: int, b1: bool, k2: int, v2: int, b2: bool, k3: int, v3: int) -> bool:
    """
    pre: k1 == P("k1") and 0 <= k2 <= 2 and 0 <= k3 <= 2 and 0 <= v1 <= 2 and 0 <= v2 <= 2 and 0 <= v3 <= 2
    post: _
    """
    # message kinds: 0 = MQTT on t/one, 1 = MQTT on t/two (only the wildcard subscription), 2 = webhook hook1
    import custom_components.pyscript.mqtt as pmqtt, custom_components.pyscript.webhook as pweb
    import custom_components.pyscript.decorators.mqtt as dmqtt, custom_components.pyscript.decorators.webhook as dweb
    from vlib.world import mkworld, SEC
    n = P("k")
    msgs = [(k1, v1, b1), (k2, v2, b2), (k3, v3, False)][:n]
    with notrace():
        w = mkworld(P("legacy"))
        fm = FakeMqtt(); fw = FakeWebhook()
        for mod in (pmqtt, dmqtt): w._patch(mod, "mqtt", fm)
        for mod in (pweb, dweb): w._patch(mod, "webhook", fw)
    try:
        with notrace():
            g = w.load("file.x", MSRC)
            nsub0 = len(fm.subs)
        expm = []; expm2 = []; exph = []
        batch = []
        def flush():
            if batch:
                fns = list(batch); w.do(lambda: [f() for f in fns]); del batch[:]
            w.settle()
        def match(sub, topic):
            return sub == topic or (sub.endswith("/+") and topic.startswith(sub[:-1]) and "/" not in topic[len(sub) - 1:])
        for (kind, v, burst) in msgs:
            if kind in (0, 1):
                topic = "t/one" if kind == 0 else "t/two"
                payload = '{"v": %d}' % v
                def deliver(topic=topic, payload=payload):
                    for sub, hnd in list(fm.subs):
                        if match(sub, topic): w.env.create_eager_task(hnd(Msg(topic, payload)))
                batch.append(deliver)
                if kind == 0 and v > 1: expm.append(("m", "mqtt", topic, payload, v, 0, False))
                expm2.append(("m2", "mqtt", topic, payload, 3))
            else:
                batch.append(lambda v=v: w.env.create_eager_task(fw.reg["hook1"](w.hass, "hook1", Req({"v": v}))))
                if v != 0: exph.append(("h", "webhook", "hook1", v, 1))
            if not burst: flush()
        flush()
        calls = [tuple(c) for c in g.global_sym_table["calls"]]
        with notrace():
            from vlib.base import GlobalContextMgr
        GlobalContextMgr.delete("file.x"); w.settle()
        leftover = (len(fm.subs), sorted(fw.reg))
    finally:
        w.close()
    ok = [c for c in calls if c[0] == "m"] == expm and [c for c in calls if c[0] == "m2"] == expm2 and [c for c in calls if c[0] == "h"] == exph
    ok = ok and nsub0 == 2 and leftover == (0, [])
    if not symbolic_mode():
        detail(msgs=msgs, calls=calls, expected=expm + expm2 + exph, leftover=leftover)
    return verdict(ok, len(expm) + len(exph) > 0)


def obligations(tier):
    o = []
    k = 2 if tier == "quick" else 3
    for legacy in (False, True):
      for t1 in [0, 1, 2]:
        sfx = "" if t1 is None else f".first_{TYPES[t1]}"
        if tier != "quick":         # (the cross-type order needs 3 events to be distinguishable)
          o.append(Obl(f"C08.order.{'legacy' if legacy else 'default'}{sfx}", __name__, "events", {"legacy": legacy, "k": k, "part": "cross_type_order", "t1": t1}, timeout=900 if tier == "quick" else 3000,
                       desc="a function with @event_trigger decorators for two event types: its runs start in the order in which the events were fired, also in bursts",
                       sym=f"{k} events as in C08.events", real_loop=True, twin=False,
                       known="C08.legacy.multi_decorator_order" if legacy else "", classifier="classify_order" if legacy else ""))
        o.append(Obl(f"C08.events.{'legacy' if legacy else 'default'}{sfx}", __name__, "events", {"legacy": legacy, "k": k, "part": "main", "t1": t1}, timeout=900 if tier == "quick" else 3000,
                     desc="every fired event whose type matches and whose filter is truthy starts exactly one run per matching decorator, in event order per function, with "
                          "trigger_type/event_type/data (+ decorator kwargs) and the event's context; earlier sleeping runs do not delay later deliveries; event.fire emits exactly "
                          "the given parameters; emitted events, state writes and service calls carry a fresh per-run context whose parent is the occurrence's context",
                     sym=f"{k} events: type in {{ev1, ev2, ev3}}, payload n in [1,3], with/without explicit Context, burst-with-next - all symbolic",
                     real_loop=True, encodes=("function.Function.event_fire", "function.Function.store_hass_context") +
                             (("event.Event.event_listener", "event.Event.update", "trigger.TrigInfo.call_action") if legacy else
                              ("decorators.event.EventTriggerDecorator._event_callback", "decorator.FunctionDecoratorManager.dispatch"))))
    for legacy in (False, True):
      for k1 in (0, 1, 2):
        o.append(Obl(f"C08.messages.{'legacy' if legacy else 'default'}.first{k1}", __name__, "messages", {"legacy": legacy, "k": 2, "k1": k1}, timeout=900,
                     desc="MQTT and webhook messages handed over by Home Assistant: exactly one run per matching trigger whose filter is truthy, in order, kwargs merged; "
                          "subscriptions and the webhook are gone after the context is deleted",
                     sym="2-3 messages: kind in {MQTT t/one, MQTT t/two, webhook}, payload value in [0,2], burst - symbolic", real_loop=True,
                     encodes=(("trigger.TrigInfo.call_action",) if legacy else ("decorator.FunctionDecoratorManager.dispatch",))))
    return o
