"""C09 - triggers live exactly as long as their function and leave nothing behind.

(1) Inverse property of the subscription tables from an arbitrary table: notify_add then notify_del leaves the queue nowhere, for every set of
    watched names in EVERY iteration order (the order is a symbolic permutation: set iteration order depends on the hash seed).
(2) Full stack: a function carrying a symbolic mix of state / time / event triggers and @service is defined, sees a symbolic number of
    occurrences, is deactivated in one of several ways (redefine, del, overwrite the last reference in a container, delete the context,
    reload without the file, unload), after which Home Assistant must be back to its baseline and no occurrence runs the old function.
The reference-counting half (WHEN the last reference dies) is CPython's garbage collector: trusted, exercised concretely on each path.
"""
from vlib import ctx
from vlib.ctx import P, verdict, detail
from vlib.obl import Obl
from vlib.base import run, symbolic_mode, notrace

LEVEL = "model_checking"
EXPLANATION = ("symbolic execution of State/Event notify_add/notify_del with symbolic membership and iteration order; full-stack symbolic execution of definition, occurrences and "
               "six ways of deactivation with a symbolic trigger mix, checking runs of old/new generations and the complete release of listeners, subscriptions, services and timers")
BOUNDS = {"quick": "up to 4 watched names out of 7 in every order; trigger mix = 4 symbolic bools; 0..2 occurrences before and 2 after deactivation; 6 deactivation kinds x 2 subsystems",
          "thorough": "up to 5 names; 3 occurrences"}
OUTSIDE = "garbage-collection timing (when __del__ / weakref.finalize fire) is CPython's; Jupyter sessions; the file watchdog"
ASSUMPTIONS = ["set iteration order modelled by a set subclass whose __iter__ follows a symbolic permutation", "stub Home Assistant / harness scheduler / virtual clock (DESIGN.md section 3)"]

NAMES = ["d.e", "d.e.old", "d.e.attr", "d2.e2", "d2.e2.attr", "bad", "a.b.c.d"]


class PermSet(set):
    def __init__(self, items, order):
        set.__init__(self, items); self._o = [items[i] for i in order]
    def __iter__(self):
        return iter(self._o)


def _perm(items, ps):
    idx = list(range(len(items))); order = []
    for p_ in ps:
        if len(idx) > 1:
            k = p_ % len(idx)
            order.append(idx.pop(k))
    return order + idx


def state_inverse(m0: bool, m1: bool, m2: bool, m3: bool, m4: bool, m5: bool, m6: bool, p0: int, p1: int, p2: int, p3: int, other: bool) -> bool:
    """
    pre: 0 <= p0 <= 4 and 0 <= p1 <= 3 and 0 <= p2 <= 2 and 0 <= p3 <= 1
    post: _
    """
    from custom_components.pyscript.state import State
    items = [n for n, m in zip(NAMES, [m0, m1, m2, m3, m4, m5, m6]) if m]
    if not items or len(items) != P("nnames"):
        return verdict(True, False)
    order = _perm(items, (p0, p1, p2, p3))
    q = object(); q2 = object()
    saved = dict(State.notify); State.notify.clear()
    try:
        if other:
            run(State.notify_add({"d.e", "d2.e2"}, q2))
        added = run(State.notify_add(PermSet(items, order), q))
        subscribed = sorted(k for k, v in State.notify.items() if q in v)
        State.notify_del(PermSet(items, _perm(items, (p3, p2, p1, p0))), q)
        leaked = [k for k, v in State.notify.items() if q in v]
        kept_other = (not other) or all(q2 in State.notify.get(k, {}) for k in ("d.e", "d2.e2"))
    finally:
        State.notify.clear(); State.notify.update(saved)
    roots = sorted({".".join(n.split(".")[:2]) for n in items if 2 <= len(n.split(".")) <= 3})
    ok = leaked == [] and kept_other and subscribed == roots and bool(added) == bool(roots)
    if not symbolic_mode():
        detail(names=[items[i] for i in order], subscribed=subscribed, leaked=leaked)
    return verdict(ok, bool(roots))


def event_inverse(n1: int, n2: int, n3: int, d1: int, d2: int, d3: int) -> bool:
    """
    pre: 0 <= n1 <= 1 and 0 <= n2 <= 1 and 0 <= n3 <= 1 and 0 <= d1 <= 2 and 0 <= d2 <= 2 and 0 <= d3 <= 2
    post: _
    """
    # three queues subscribe to event types (index into 2 types), then are removed in a symbolic order: listener present iff some queue subscribed;
    # update() puts exactly one copy per subscriber
    from custom_components.pyscript.event import Event
    from vlib.world import VQueue, Env
    types_ = ["ta", "tb"]
    Env()
    class Bus:
        def __init__(s): s.c = [0, 0]
        def async_listen(s, et, cb):
            i = types_.index(et); s.c[i] += 1
            def rm(): s.c[i] -= 1
            return rm
        def n(s, et): return s.c[types_.index(et)]
    with notrace():
        bus = Bus()                   # (harness state is built untraced: under tracing type() would receive a copy of `bus`)
        hass_stub = type("H", (), {"bus": bus})()
    saved = (Event.hass, dict(Event.notify), dict(Event.notify_remove))
    Event.hass = hass_stub; Event.notify.clear(); Event.notify_remove.clear()
    try:
        qs = [VQueue(), VQueue(), VQueue()]
        subs = [types_[n1], types_[n2], types_[n3]]
        for q, t in zip(qs, subs): Event.notify_add(t, q)
        ok = all(bus.n(t) == (1 if t in subs else 0) for t in types_)
        run(Event.update("ta", {"x": 1}))
        ok = ok and [len(q.items) for q in qs] == [1 if t == "ta" else 0 for t in subs]
        order = []
        idx = [0, 1, 2]
        for d_ in (d1, d2, d3):
            if idx: order.append(idx.pop(d_ % len(idx)))
        live = set(range(3))
        for i in order:
            Event.notify_del(subs[i], qs[i]); live.discard(i)
            Event.notify_del(subs[i], qs[i])          # removing twice is harmless
            for t in types_:
                want = 1 if any(subs[j] == t for j in live) else 0
                ok = ok and bus.n(t) == want and ((t in Event.notify) == bool(want))
    finally:
        Event.hass = saved[0]; Event.notify.clear(); Event.notify.update(saved[1]); Event.notify_remove.clear(); Event.notify_remove.update(saved[2])
    return verdict(ok, True)


# ---------------------------------------------------------------------------------------------- full stack
def script(gen, st, tm, evt, svc, extra=""):
    d = []
    if st: d.append('@state_trigger("pyscript.a == \'1\' and pyscript.b.attr1 != 5 and pyscript.a.old != \'9\'")')
    if tm: d.append('@time_trigger("startup", "shutdown", "period(now + 1s, 1s)")')
    if evt: d.append('@event_trigger("ev")')
    if svc: d.append('@service("pyscript.svc1")')
    body = f'''
def f(**kw):
    global calls
    calls += [({gen}, kw.get("trigger_type"), str(kw.get("trigger_time")) if kw.get("trigger_time") in ("startup", "shutdown") else None)]
'''
    return "\n".join(d) + body + extra


KINDS = ["redefine", "del", "container", "delete_ctx", "reload_gone", "unload"]


def lifecycle(st: bool, tm: bool, evt: bool, svc: bool, nbefore: int) -> bool:
    """
    pre: 0 <= nbefore <= P("k") and (st or tm or evt or svc)
    post: _
    """
    from vlib.world import mkworld, SEC
    from custom_components.pyscript.state import State
    from custom_components.pyscript.event import Event
    from custom_components.pyscript.function import Function
    from vlib.base import GlobalContextMgr
    import custom_components.pyscript as pys
    kind = P("kind")
    with notrace():
        w = mkworld(P("legacy"))
    try:
        with notrace():
            w.set_state("pyscript.a", "0"); w.set_state("pyscript.b", "0", {"attr1": 1})
            def baseline():
                live = len([t for t in w.env.tasks if not t.done()]) if not w.real else 0
                return ({k: len(v) for k, v in State.notify.items() if v}, {k: len(v) for k, v in Event.notify.items()}, dict(w.hass.bus.async_listeners()),
                        sorted(s for (d_, s) in w.hass.services.reg if s not in ("reload", "jupyter_kernel_start", "generate_stubs")), live,
                        {k: v for k, v in Function.service_cnt.items() if v}, dict(Function.service2global_ctx))
            base = baseline()
            holder = {}
        calls_box = []
        src0 = "calls = []\n"
        if kind == "container":
            # the only reference to the decorated closure lives in a dict
            src0 += "def mk():\n" + "\n".join("    " + l for l in script(1, st, tm, evt, svc).strip().split("\n")) + "\n    return f\nreg = {'k': mk()}\n"
        else:
            src0 += script(1, st, tm, evt, svc)
        w.fs.files["/cfg/pyscript/x.py"] = [src0, 1.0]
        g = w.load("file.x", src0)
        active = baseline()
        t = 0; val = 0
        def occurrence():
            nonlocal t, val
            t += SEC; val += 1
            w.advance(t)
            w.set_state("pyscript.a", "1" if val % 2 else "0")
            w.fire("ev", {})
            if w.hass.services.has_service("pyscript", "svc1"):
                w.call_service("pyscript", "svc1", {})
        for _ in range(nbefore):
            occurrence()
        n_before_calls = len(g.global_sym_table["calls"])
        if P("competitor") and svc:
            # another file declares the same service name: refused (the name is owned by file.x), and its refusal must leave no trace
            g2 = w.load("file.y", "calls = []\n@service('pyscript.svc1')\ndef other(**kw):\n    global calls\n    calls += [1]\n")
            occurrence()
            stolen = len(g2.global_sym_table["calls"])
            GlobalContextMgr.delete("file.y"); w.settle()
        else:
            stolen = 0
        # ---- deactivation
        g_after = g
        if kind == "redefine":
            a2 = __import__("custom_components.pyscript.eval", fromlist=["AstEval"]).AstEval("file.x", g)
            Function.install_ast_funcs(a2)
            a2.parse(script(2, st, tm, evt, svc)); w.run(a2.eval()); w.settle()
        elif kind == "del":
            a2 = __import__("custom_components.pyscript.eval", fromlist=["AstEval"]).AstEval("file.x", g)
            Function.install_ast_funcs(a2); a2.parse("del f\n"); w.run(a2.eval()); w.settle()
        elif kind == "container":
            a2 = __import__("custom_components.pyscript.eval", fromlist=["AstEval"]).AstEval("file.x", g)
            Function.install_ast_funcs(a2); a2.parse("reg['k'] = None\n"); w.run(a2.eval()); w.settle()
        elif kind == "delete_ctx":
            GlobalContextMgr.delete("file.x"); w.settle()
        elif kind == "reload_gone":
            del w.fs.files["/cfg/pyscript/x.py"]
            rt = w.call_service("pyscript", "reload", {}, blocking=True); w.settle()
            if rt.done() and rt.exception() is not None: raise rt.exception()
        elif kind == "unload":
            w.run(pys.async_unload_entry(w.hass, w.entry)); w.settle()
        import gc; gc.collect(); w.settle()
        mid_calls = list(g.global_sym_table["calls"])
        for _ in range(2):
            occurrence()
        w.advance(t + 3 * SEC)
        calls = [tuple(c) for c in g.global_sym_table["calls"]]
        after = baseline()
    finally:
        w.close()
    gen1 = [c for c in calls if c[0] == 1]; gen2 = [c for c in calls if c[0] == 2]
    late_old = [c for c in calls[len(mid_calls):] if c[0] == 1]          # runs of the old function after deactivation completed
    ok = late_old == [] and stolen == 0
    # startup / shutdown entries ran exactly once per definition / removal
    if tm:
        ok = ok and [c for c in gen1 if c[2] == "startup"] == [(1, "time", "startup")] and len([c for c in gen1 if c[2] == "shutdown"]) == 1
    if kind == "redefine":
        # the new generation is now the active one: same footprint as before the redefinition, and it runs
        ok = ok and after[:4] == active[:4] and len(gen2) > 0
    elif kind == "unload":
        ok = ok and after[0] == {} and after[1] == {} and after[2] == {} and after[3] == [] and after[5] == {} and after[6] == {}
    else:
        ok = ok and after == base
    if not symbolic_mode():
        detail(kind=kind, mix=(st, tm, evt, svc), nbefore=nbefore, calls=calls, base=base, active=active, after=after)
    return verdict(ok, len(gen1) > 0)


def obligations(tier):
    o = []
    mx = 3 if tier == "quick" else 5
    for nn in range(1, mx + 1):
      o.append(Obl(f"C09.state_notify_inverse.n{nn}", __name__, "state_inverse", {"nnames": nn}, timeout=900 if tier == "quick" else 3000,
                 desc="State.notify_add followed by notify_del for the same set of names leaves the queue in no bucket, whatever the set's iteration order; other subscribers untouched; "
                      "buckets are exactly the entity roots of the well-formed names",
                 sym=f"membership of 7 candidate names (value, .old, attribute names of two entities, malformed), exactly {nn} chosen; iteration orders of add and del = symbolic permutations",
                 encodes=("state.State.notify_add", "state.State.notify_del")))
    o.append(Obl("C09.event_notify_inverse", __name__, "event_inverse", {}, timeout=600,
                 desc="Event.notify_add/notify_del/update: a bus listener exists iff some queue is subscribed; update delivers exactly one copy per subscriber; removal order irrelevant",
                 sym="3 queues x event type index; removal order = symbolic permutation", encodes=("event.Event.notify_add", "event.Event.notify_del", "event.Event.update")))
    k = 2 if tier == "quick" else 3
    for kind in KINDS:
        for legacy in (False, True):
            o.append(Obl(f"C09.lifecycle.{kind}.{'legacy' if legacy else 'default'}", __name__, "lifecycle", {"kind": kind, "legacy": legacy, "k": k}, timeout=1200 if tier == "quick" else 3000,
                         desc=f"a function with a symbolic mix of @state_trigger/@time_trigger(startup, shutdown, period)/@event_trigger/@service is deactivated by '{kind}': afterwards no "
                              "occurrence runs it, startup/shutdown ran exactly once, and State/Event tables, bus listeners, services (+ reference counts, owners) and pending timers are back to baseline "
                              "(redefine: back to the footprint of one active definition, and the new definition runs)",
                         sym=f"trigger mix: 4 bools; occurrences before deactivation 0..{k} - symbolic", real_loop=(kind != "unload"), twin=(kind in ("redefine", "delete_ctx")),
                         encodes=("global_ctx.GlobalContext.stop",) if kind in ("delete_ctx", "reload_gone", "unload") else ()))
    for legacy in (False, True):
        o.append(Obl(f"C09.lifecycle.competitor.{'legacy' if legacy else 'default'}", __name__, "lifecycle", {"kind": "delete_ctx", "legacy": legacy, "k": 1, "competitor": True},
                     timeout=1200, desc="as delete_ctx, but before the deactivation a second file declares the same @service name (refused) and is removed again: the refusal leaves no "
                     "registration, reference count or owner behind", sym="trigger mix: 4 bools; occurrences before 0..1", real_loop=True, twin=False))
    return o
