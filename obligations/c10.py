"""C10 - reload loads exactly what the files and configuration now dictate.

Full stack with an in-memory file universe: the real pyscript.reload service handler, load_scripts, load_file and module_import run on a
tree with top-level scripts, scripts/, an app package with a sibling, plain modules (two of them with a common name prefix) and a module
package.  Which files were edited / touched / deleted / '#'-renamed since the last load and the reload argument are symbolic; the oracle is the
documentation's rule written as set equations (changed set, package widening, transitive-importer closure, deleted contexts, untouched rest).
"""
from vlib import ctx
from vlib.ctx import P, verdict, detail
from vlib.obl import Obl
from vlib.base import symbolic_mode, notrace

LEVEL = "model_checking"
EXPLANATION = ("symbolic execution of the real reload path (reload_scripts_handler -> load_scripts -> load_file/module_import) over an in-memory tree; the set of changed files, the kind of "
               "change and the reload argument are solver variables; reloaded / untouched / removed contexts compared with the documented set equations")
BOUNDS = {"quick": "tree of 10 files (3 scripts, scripts/s.py, app package with sibling, modules m1, m12, package m2 with x); one change of any kind on any file plus an optional second touch; 7 reload arguments",
          "thorough": "two changes of any kind"}
OUTSIDE = "a named reload (global_ctx=NAME) combined with the deletion of other files (a named reload does not look at other files; the stale contexts stay until a default reload); the file watchdog / inotify path; YAML parsing of the app configuration (update_yaml_config is a stub); trees other than the universe"
ASSUMPTIONS = ["glob/open/os.path replaced by an in-memory file universe with POSIX semantics; import edges are created by the scripts' own import statements (real module_import)"]

ROOT = "/cfg/pyscript/"
FILES = [
    ("a.py", "import m1\nv = m1.val\n", "file.a"),
    ("b.py", "import m12\nv = m12.val\n", "file.b"),
    ("c.py", "v = 3\n", "file.c"),
    ("scripts/s.py", "import m2\nv = m2.val\n", "scripts.s"),
    ("modules/m1.py", "val = 1\n", "modules.m1"),
    ("modules/m12.py", "val = 12\n", "modules.m12"),
    ("modules/m2/__init__.py", "from . import x\nval = x.val\n", "modules.m2"),
    ("modules/m2/x.py", "val = 2\n", "modules.m2.x"),
    ("apps/app1/__init__.py", "from . import sib\nv = sib.val\n", "apps.app1"),
    ("apps/app1/sib.py", "val = 9\n", "apps.app1.sib"),
]
CTX = [f[2] for f in FILES]
IMPORTS = {"file.a": ["modules.m1"], "file.b": ["modules.m12"], "scripts.s": ["modules.m2"], "modules.m2": ["modules.m2.x"], "apps.app1": ["apps.app1.sib"]}
AUTOLOAD = {"file.a", "file.b", "file.c", "scripts.s", "apps.app1"}
PKG = {"modules.m2": ["modules.m2", "modules.m2.x"], "apps.app1": ["apps.app1", "apps.app1.sib"]}
RELOAD_ARGS = [None, "*", "file.a", "modules.m1", "modules.m2", "apps.app1", "scripts.s"]
KINDS = ["touch", "modify", "delete", "rename#"]


def root_of(c):
    p = c.split(".")
    return p[0] + "." + p[1]


def oracle(changes, arg, loaded_before):
    """returns (reloaded: set of contexts that must be new objects, gone: set that must not exist afterwards, kept: set that must be the identical objects)"""
    changed = set(); removed = set()
    for fi, kind in changes:
        c = CTX[fi]
        (removed if kind in ("delete", "rename#") else changed).add(c)
    if arg == "*":
        seed = set(loaded_before) | set(CTX)
    elif arg is not None:
        seed = {arg}
    else:
        seed = set(changed) | set(removed)
    # package widening: a change anywhere in an app or module package reloads the whole package
    wid = set(seed)
    for c in seed:
        r = root_of(c)
        if r in PKG: wid |= set(PKG[r])
    # everything that directly or transitively imports a changed module (root) is reloaded
    mod_roots = {root_of(c) for c in wid if c.startswith("modules.")}
    rel = set(wid)
    grew = True
    while grew:
        grew = False
        for c, imps in IMPORTS.items():
            if c not in rel and any(root_of(i) in mod_roots or i in rel for i in imps):
                rel.add(c); grew = True
                if c.startswith("modules."): mod_roots.add(root_of(c))
                r = root_of(c)
                if r in PKG: rel |= set(PKG[r])
    return rel, removed


def reload_step(f1: int, k1: int, two: bool, f2: int, k2: int) -> bool:
    """
    pre: 0 <= f1 < len(FILES) and 0 <= k1 <= 3 and 0 <= f2 < len(FILES) and 0 <= k2 <= P("maxk2") and (two or (f2 == 0 and k2 == 0)) and (not two or f1 != f2) and (P("arg") <= 1 or (k1 <= 1 and k2 <= 1)) and (P("k1") is None or k1 == P("k1"))
    post: _
    """
    from vlib.world import mkworld
    from vlib.base import GlobalContextMgr
    arg = RELOAD_ARGS[P("arg")]
    with notrace():
        files = {ROOT + p: [src, 1.0] for p, src, _ in FILES}
        w = mkworld(False, files=files, config={"apps": {"app1": {"opt": 1}}})
        w.fire("homeassistant_started", {})
        before = {n: c for n, c in GlobalContextMgr.contexts.items()}
    try:
        changes = [(f1, KINDS[k1])] + ([(f2, KINDS[k2])] if two else [])
        for fi, kind in changes:
            path = ROOT + FILES[fi][0]
            if kind == "touch":
                w.fs.files[path] = [w.fs.files[path][0], w.fs.files[path][1] + 1.0]
            elif kind == "modify":
                w.fs.files[path] = [w.fs.files[path][0] + "z = 1\n", w.fs.files[path][1]]
            elif kind == "delete":
                del w.fs.files[path]
            else:
                d, _, b = path.rpartition("/")
                w.fs.files[d + "/#" + b] = w.fs.files.pop(path)
        t = w.call_service("pyscript", "reload", {} if arg is None else {"global_ctx": arg}, blocking=True)
        w.settle()
        err = t.exception() if t.done() else "pending"
        after = {n: c for n, c in GlobalContextMgr.contexts.items()}
    finally:
        w.close()
    rel, removed = oracle(changes, arg, before)
    if arg is not None and arg != "*" and arg in removed and arg not in before:
        return verdict(True, False)
    ok = err is None and sorted(before) == sorted(CTX)
    # what must exist afterwards: auto-loaded files that still exist, plus the modules they import (if those exist); a script whose import fails does not load
    exists = {c for c in CTX if c not in removed}
    def loads(c, seen=()):
        if c not in exists: return False
        return all(loads(i, seen + (c,)) for i in IMPORTS.get(c, []))
    exp_after = set()
    for c in CTX:
        if c in AUTOLOAD and loads(c):
            exp_after.add(c)
            stack = list(IMPORTS.get(c, []))
            while stack:
                i = stack.pop(); exp_after.add(i); stack += IMPORTS.get(i, [])
    # a context that is neither reloaded nor removed stays (also a module nobody imports any more stays until its file changes)
    for c in before:
        if c not in rel and c not in removed: exp_after.add(c)
    if arg is not None and arg != "*":
        # a named reload does not look at other files: their removal is noticed only by a later default reload
        pass
    same = {c for c in before if c in after and after[c] is before[c]}
    new = {c for c in after if c not in same}
    exp_same = {c for c in before if c not in rel and c not in removed}
    if arg is not None and arg != "*":
        exp_same = {c for c in before if c not in rel}
        exp_after = (set(before) - rel) | {c for c in rel if c in exp_after or (c in before and c not in removed and c in exp_after)}
    ok = ok and same == exp_same and set(after) == exp_after
    if not symbolic_mode():
        detail(changes=[(FILES[f][0], k) for f, k in changes], arg=arg, kept_identical=sorted(same), expected_kept=sorted(exp_same), after=sorted(after), expected_after=sorted(exp_after), error=str(err))
    return verdict(ok, len(new) > 0)


def obligations(tier):
    o = []
    for ai, arg in enumerate(RELOAD_ARGS):
        for k1 in ((0, 1, 2, 3) if ai <= 1 else (None,)):          # (partitioned by the kind of the first change only to use all cores)
            nm = 'default' if arg is None else 'all' if arg == '*' else arg
            o.append(Obl(f"C10.reload.{nm}" + ("" if k1 is None else "." + KINDS[k1].replace("#", "")), __name__, "reload_step", {"arg": ai, "maxk2": 0 if tier == "quick" else 3, "k1": k1},
                         timeout=1500 if tier == "quick" else 3000,
                         desc=f"pyscript.reload(global_ctx={arg!r}) after symbolic edits: the discarded-and-recreated contexts are exactly the changed files, every file of a package containing a change and "
                              "everything that directly or transitively imports a changed module; all other contexts are the identical objects; the loaded set afterwards is exactly the auto-loaded existing "
                              "files plus the modules they import",
                         sym="first change: file index (10) x kind {touch, modify, delete, #-rename}; optional second change (quick: a touch) on another file - symbolic", real_loop=False,
                         encodes=("__init__.load_scripts", "global_ctx.GlobalContext.module_import")))
    return o
