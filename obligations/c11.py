"""C11 - each file has an isolated global context; modules are shared singletons.

Full stack: two script files (or a script and a Jupyter-session context) with the SAME global names, a plain module `m`, a module
package `pk` with a sub-module (relative imports) - all loaded by the real load_file / module_import.  Trigger occurrences in both
files run symbolic operations: assign an own global, call into the module (which rebinds ITS globals), pass an own function into the
module and have it called back from there (and call back into the module from inside that call-back), calls that raise, closures made
in the module, instances of a module class, a new global created at run time, tasks created from a trigger.  The same sources are run by
CPython as ordinary modules (a 40-line importer over the same file universe); the global tables of all five contexts and the recorded
reads are compared.
"""
import builtins, logging, types

from vlib import ctx
from vlib.ctx import P, verdict, detail
from vlib.obl import Obl
from vlib.base import symbolic_mode, notrace

LEVEL = "translation_validation"
EXPLANATION = ("differential symbolic execution: the real interpreter (EvalFunc.call context switch, ast_import/ast_importfrom, module_import) runs multi-file programs whose operations and "
               "values are solver variables; CPython runs the same sources as ordinary modules; every context's global table and every recorded read must agree")
BOUNDS = {"quick": "2 script contexts + module m + package pk/sub; 4 import forms; 3 symbolic operations (file a, file b, file a again) out of 11, each followed by a full read-back; "
                   "1 operation run from a created task; symbolic int values",
          "thorough": "5 import-form pairs x 11 first operations x both decorator subsystems, 3 symbolic operations"}
OUTSIDE = ("circular imports; `import pk.sub` without `as`; pyscript.set_global_ctx / get_global_ctx (Jupyter only; no CPython counterpart); more files than the bound; "
           "module reload (C10)")
ASSUMPTIONS = ["stub Home Assistant + harness scheduler; in-memory file universe with POSIX semantics", "CPython reference: own __import__ over the same file universe (modules cached by name)",
               "event_trigger in the reference registers the function; task.create in the reference calls the function at once (the harness lets created tasks finish before it continues)"]

ROOT = "/cfg/pyscript/"
M_SRC = '''
x = 100
log = []
_priv = 1
def get():
    return x
def setx(v):
    global x
    x = v
    return v
def add(v):
    global log
    log = log + [v]
    return 1
def boom(v):
    global x
    x = v
    raise ValueError("boom")
def call_back(f, v):
    before = x
    got = f(v=v)
    return [before, got, x]
def mk():
    y = x
    def inner():
        return (x, y)
    return inner
def chain(f, v):
    return [f(v=v), get()]
def deco(f):
    def wrapper(*a, **kw):
        return f(*a, **kw)
    return wrapper
class K:
    x = 5
    def __init__(self, v):
        self.v = v
    def bump(self):
        global x
        x = x + self.v
        return x
'''
PK_SRC = '''
from . import sub
from .sub import sv, sget
import m
x = sv + 1
def pget():
    return (x, sub.x, sget(), m.get())
def pset(v):
    global x
    x = v
    sub.x = v + 1
'''
SUB_SRC = '''
sv = 5
x = 50
def sget():
    return x
'''
FILES = {"modules/m.py": M_SRC, "modules/pk/__init__.py": PK_SRC, "modules/pk/sub.py": SUB_SRC}

IMPORT_FORMS = [
    ("import m\nimport pk\n", "m.", "m.K"),
    ("import m as mm\nimport pk\n", "mm.", "mm.K"),
    ("from m import get, setx, add, boom, call_back, mk, chain, K as MK\nimport pk\n", "", "MK"),
    ("from m import *\nMK = K\nimport pk\n", "", "MK"),
]

SCRIPT = '''
{IMPORT}
x = X0
r = []
def own(v):
    global x
    x = x + v
    return x
def rd(v):
    return x
def deep(v):
    # called back from the module; calls into the module again, which raises; own globals still resolve afterwards
    try:
        {M}boom(v=v)
    except ValueError:
        pass
    return x
def shadow(v):
    x = v + 1            # a LOCAL with the name of a module global, in a function whose locals are closure cells
    def keep():
        return x
    return [{M}mk()(), keep()]
class K:
    x = -1
def run(op, v):
    global x, r, fresh
    loc = 1000
    for i in range(1):
        loc = loc + 1
        if op == 0:
            x = v
        elif op == 1:
            r += [{M}setx(v=v)]
        elif op == 2:
            r += [{M}add(v=v)]
        elif op == 3:
            try:
                {M}boom(v=v)
            except ValueError:
                r += ["caught"]
        elif op == 4:
            r += [{M}call_back(own, v=v)]
        elif op == 5:
            r += [{M}mk()(), shadow(v=v)]
        elif op == 6:
            r += [{M}chain(rd, v=v)]
        elif op == 7:
            k = {K}(v=v)
            r += [k.bump(), K.x]
        elif op == 8:
            r += [pk.pget()]
            pk.pset(v=v)
        elif op == 9:
            fresh = v
        elif op == 10:
            r += [{M}call_back(deep, v=v)]
        # read-back after every operation: own global, own class, the local, what the module sees
        r += [(x, K.x, loc, {M}get(), pk.pget())]

@event_trigger("go_{TAG}")
def trig(op=0, v=0, spawn=None, **kw):
    run(op=op, v=v)
    if spawn is not None:
        task.create(run, op=spawn, v=7)
'''


def script_src(form, tag):
    imp, m, k = IMPORT_FORMS[form]
    return SCRIPT.replace("{IMPORT}", imp).replace("{M}", m).replace("{K}", k).replace("{TAG}", tag)


# ------------------------------------------------------------------------------------------------ CPython reference
class CpyWorld:
    def __init__(self, files):
        self.files = files; self.mods = {}; self.trig = {}
        bi = dict(builtins.__dict__); bi["__import__"] = self.imp
        self.bi = bi

    def _find(self, full):
        p = full.replace(".", "/")
        if f"modules/{p}/__init__.py" in self.files: return f"modules/{p}/__init__.py", True
        if f"modules/{p}.py" in self.files: return f"modules/{p}.py", False
        return None, False

    def get(self, full):
        if full in self.mods: return self.mods[full]
        path, is_pkg = self._find(full)
        if path is None: return None
        with notrace():
            mod = types.ModuleType(full)
        mod.__dict__["__builtins__"] = self.bi
        mod.__dict__["__package__"] = full if is_pkg else full.rpartition(".")[0]
        self.mods[full] = mod
        exec(compile(self.files[path], path, "exec"), mod.__dict__)
        return mod

    def imp(self, name, globals=None, locals=None, fromlist=(), level=0):
        if level:
            base = globals["__package__"]
            if not name:
                pkgmod = self.get(base)
                for f in fromlist:
                    if not hasattr(pkgmod, f):
                        sub = self.get(base + "." + f)
                        if sub is None: raise ImportError(f)
                        setattr(pkgmod, f, sub)
                return pkgmod
            full = base + "." + name
        else:
            full = name
        mod = self.get(full)
        if mod is None:
            return builtins.__import__(name, globals, locals, fromlist, level)
        return mod if fromlist else self.get(full.split(".")[0])

    def script(self, name, src, extra):
        class _Task:
            @staticmethod
            def create(f, *a, **kw): f(*a, **kw)
        def event_trigger(evname):
            def d(f):
                self.trig[evname] = f
                return f
            return d
        g = {"__name__": name, "__builtins__": self.bi, "event_trigger": event_trigger, "task": _Task, **extra}
        exec(compile(src, name, "exec"), g)
        return g


SKIP = {"event_trigger", "task", "X0", "state_trigger", "log_x"}


def view(table):
    out = {}
    for n, v in table.items():
        if n.startswith("__") or n in SKIP: continue
        out[n] = _v(v)
    return out


def _v(v):
    if type(v).__name__ == "EvalLocalVar":       # pyscript keeps a class (and closure variables) in a cell
        v = v.get()
    if isinstance(v, types.ModuleType): return "<module>"
    if isinstance(v, type): return ("<class>", v.__dict__.get("x"))
    if isinstance(v, (list, tuple)): return [_v(i) for i in v]
    if isinstance(v, (int, str)) or v is None: return v
    if callable(v): return "<fn>"
    return "<obj>"


def veq(a, b):
    """structural equality that keeps symbolic ints symbolic"""
    if isinstance(a, dict):
        return isinstance(b, dict) and sorted(a) == sorted(b) and all(veq(a[k], b[k]) for k in a)
    if isinstance(a, list):
        return isinstance(b, list) and len(a) == len(b) and all(veq(x, y) for x, y in zip(a, b))
    if isinstance(a, tuple):
        return isinstance(b, tuple) and len(a) == len(b) and all(veq(x, y) for x, y in zip(a, b))
    return a == b


def _stages(o1, v1, o2, v2, o3, v3, o4, v4):
    n = P("nops")
    st = [("a", [(o1, v1)]), ("b", [(o2, v2)]), ("a", [(o3, v3)])]
    if n >= 4: st.append(("b", [(o4, v4)]))
    return st


def isolation(o1: int, v1: int, o2: int, v2: int, o3: int, v3: int, o4: int, v4: int, xa: int, xb: int) -> bool:
    """
    pre: 0 <= o1 <= 10 and 0 <= o2 <= 10 and 0 <= o3 <= 10 and 0 <= o4 <= 10 and (P("o1") is None or o1 == P("o1")) and (P("nops") >= 4 or (o4 == 0 and v4 == 0))
    pre: P("o2") is None or o2 in P("o2")
    post: _
    """
    from vlib.world import mkworld
    from vlib.base import GlobalContextMgr
    fa, fb = P("forms")
    bname = P("bname")
    spawn_op = P("spawn")
    stages = _stages(o1, v1, o2, v2, o3, v3, o4, v4)
    srcs = {"a": script_src(fa, "a"), "b": script_src(fb, "b")}
    x0 = {"a": xa, "b": xb}
    # ---- pyscript
    recs = []
    with notrace():
        class H(logging.Handler):
            def emit(self, r):
                if r.levelno >= 40: recs.append((r.levelno, r.getMessage()))
        h = H(); lg = logging.getLogger("custom_components.pyscript"); lg.addHandler(h)
        w = mkworld(P("legacy"), files={ROOT + p: [s, 1.0] for p, s in FILES.items()})
        w.fire("homeassistant_started", {})
    try:
        with notrace():
            g = {"a": w.load("file.a", srcs["a"], extra={"X0": xa}), "b": w.load(bname, srcs["b"], extra={"X0": xb})}
        for i, (f, ops) in enumerate(stages):
            w.fire("go_" + f, {"op": ops[0][0], "v": ops[0][1], "spawn": spawn_op if i == 1 else None})
        w.settle()
        names = {"a": "file.a", "b": bname, "m": "modules.m", "pk": "modules.pk", "pk.sub": "modules.pk.sub"}
        got = {}
        for k, cn in names.items():
            c = GlobalContextMgr.get(cn)
            got[k] = view(c.global_sym_table) if c is not None else None
        nctx = sorted(n for n in GlobalContextMgr.contexts if n.startswith("modules."))
        errs = list(recs)
    finally:
        w.close(); lg.removeHandler(h)
    # ---- CPython
    with notrace():
        cw = CpyWorld(FILES)
        cg = {"a": cw.script("file.a", srcs["a"], {"X0": xa}), "b": cw.script(bname, srcs["b"], {"X0": xb})}
    for i, (f, ops) in enumerate(stages):
        cw.trig["go_" + f](op=ops[0][0], v=ops[0][1], spawn=spawn_op if i == 1 else None)
    exp = {"a": view(cg["a"]), "b": view(cg["b"]), "m": view(cw.mods["m"].__dict__), "pk": view(cw.mods["pk"].__dict__), "pk.sub": view(cw.mods["pk.sub"].__dict__)}
    ok = len(errs) == 0 and nctx == ["modules.m", "modules.pk", "modules.pk.sub"]
    for k in exp:
        ok = ok and got[k] is not None and veq(got[k], exp[k])
    if not symbolic_mode() or ctx.DEBUG:
        bad = [k for k in exp if got[k] != exp[k]]
        detail(stages=stages, forms=[fa, fb], x0=[xa, xb], differing_contexts=bad, pyscript={k: got[k] for k in bad}, cpython={k: exp[k] for k in bad}, errors=[str(e[1])[-700:] for e in errs], module_contexts=nctx)
    return verdict(ok, True)


TRIG_SRC = '''
from m import deco
x = X0
r = []

@state_trigger("int(pyscript.v) == x")
@deco
def trig(**kw):
    global r
    r += [("fired", x)]

@state_trigger("int(pyscript.w) == x")
@state_active("x != 100")
def trig2(**kw):
    global r
    r += [("fired2", x)]
'''


def trigger_ctx(xa: int, v: int) -> bool:
    """
    pre: 96 <= xa <= 104 and 96 <= v <= 104
    post: _
    """
    # (the state value ends up in a string, so its digits are realised: a small window around the module's value 100)
    # a trigger decorated in file a whose action is wrapped by a decorator imported from module m (m.x == 100): the trigger and active
    # expressions are evaluated against file a's globals
    from vlib.world import mkworld
    with notrace():
        w = mkworld(P("legacy"), files={ROOT + p: [s, 1.0] for p, s in FILES.items()})
        w.fire("homeassistant_started", {})
    try:
        with notrace():
            w.hass.states.async_set("pyscript.v", "-999"); w.hass.states.async_set("pyscript.w", "-999")
            g = w.load("file.a", TRIG_SRC, extra={"X0": xa})
        w.set_state("pyscript.v", v)
        w.set_state("pyscript.w", v)
        w.settle()
        r = [tuple(i) for i in g.global_sym_table["r"]]
    finally:
        w.close()
    exp = []
    if v == xa: exp.append(("fired", xa))
    if v == xa and xa != 100: exp.append(("fired2", xa))
    ok = veq(sorted(r, key=lambda t: t[0]), exp)
    if not symbolic_mode() or ctx.DEBUG:
        detail(x_in_file_a=xa, x_in_module=100, value=v, fired=r, expected=exp)
    return verdict(ok, len(exp) > 0)


OPNAMES = ["own_global=v", "m.setx(v)", "m.add(v)", "m.boom(v) raises", "m.call_back(own)", "m.mk()() (+ from a function with a shadowing local)", "m.chain(rd)", "MK(v).bump()", "pk.pget/pset", "new global", "call_back(deep->boom)"]


def obligations(tier):
    o = []
    pairs = [(0, 2), (3, 1)] if tier == "quick" else [(0, 2), (3, 1), (1, 3), (2, 0), (1, 1)]
    nops = 3
    for legacy in ((False,) if tier == "quick" else (False, True)):
        for (fa, fb) in pairs:
            for o1 in range(11):
                if tier == "quick" and (o1 % 2 == 0) != (fa == 0): continue
                o.append(Obl(f"C11.isolation.forms{fa}{fb}.first_{o1}{'.legacy' if legacy else ''}", __name__, "isolation",
                             {"legacy": legacy, "forms": [fa, fb], "o1": o1, "o2": None, "nops": nops, "bname": "file.b" if fa == 0 else "jupyter_7", "spawn": 4 if fa == 0 else 3}, timeout=1500,
                             desc=f"files a and b ({'Jupyter session' if fa else 'file'}) with the same global names, import forms {IMPORT_FORMS[fa][0].splitlines()[0]!r} / {IMPORT_FORMS[fb][0].splitlines()[0]!r}; "
                                  f"a runs {OPNAMES[o1]}, then b and a run symbolic operations from trigger occurrences and a created task: all five global tables and every read-back equal CPython's",
                             sym=f"{nops - 1} operations out of 11, all values, both files' initial x - symbolic", real_loop=False, twin=(o1 == 0),
                             encodes=("eval.EvalFunc.call", "eval.AstEval.ast_import", "eval.AstEval.ast_importfrom", "global_ctx.GlobalContext.module_import")))
    for legacy in (False, True):
        o.append(Obl(f"C11.trigger_ctx.{'legacy' if legacy else 'default'}", __name__, "trigger_ctx", {"legacy": legacy}, timeout=900,
                     desc="trigger and active expressions of a function wrapped by a decorator imported from a module are evaluated against the globals of the file that wrote them",
                     sym="file global x, state value - symbolic ints in 96..104 (the module's x is 100)", real_loop=True, twin=True))
    return o
