"""C12 - a @service exists exactly while declared and calls the current definition; outgoing calls deliver exactly the given parameters.

(1) One-step obligations on Function.service_register / service_remove from an arbitrary valid table.
(2) Full-stack histories: define / redefine (same or other names, aliases) / delete / define in a second context / delete a context,
    interleaved with service calls carrying symbolic data; after every step has_service <=> a live owner declaration, calls run the newest
    definition with the call's data and trigger_type='service' and return its value when a response is supported.
(3) Outgoing calls: service.call / DOMAIN.service(...) with symbolic presence and type of blocking / return_response / context and a symbolic
    supports_response of the target.
"""
from vlib import ctx
from vlib.ctx import P, verdict, detail
from vlib.obl import Obl
from vlib.base import run, symbolic_mode, notrace, realize

LEVEL = "model_checking"
EXPLANATION = ("one-step symbolic execution of Function.service_register/service_remove from an arbitrary valid table; full-stack symbolic histories of service declarations and calls in two "
               "contexts; symbolic keyword presence for outgoing service calls against a recording registry")
BOUNDS = {"quick": "histories of 4 operations out of 9 kinds over 2 contexts and 2 service names; call data symbolic int; outgoing calls: 3 optional control keywords x type, supports_response in 3",
          "thorough": "same as quick"}
OUTSIDE = "service schema / description handling (async_set_service_schema is a stub); Home Assistant's own service registry semantics beyond register/remove/has_service/call"
ASSUMPTIONS = ["stub service registry: async_register replaces, async_remove removes, async_call invokes the registered handler with a real ServiceCall"]


# ---------------------------------------------------------------------------------------------- (1) register / remove steps
def register_step(cnt: int, owner: int, who: int, op: int) -> bool:
    """
    pre: 0 <= cnt <= 3 and 0 <= owner <= 2 and 1 <= who <= 2 and 0 <= op <= 1
    post: _
    """
    # table invariant: cnt > 0 <=> registered <=> owner recorded (owner 0 = none); contexts 1 and 2; op 0 register by `who`, 1 remove by the owner
    from custom_components.pyscript.function import Function
    from vlib.world import Services
    if (cnt > 0) != (owner > 0):
        return verdict(True, False)
    names = [None, "file.a", "file.b"]
    reg = Services(None)
    saved = (Function.hass, dict(Function.service_cnt), dict(Function.service2global_ctx))
    with notrace():                                  # (class creation under tracing copies the attribute values)
        Function.hass = type("H", (), {"services": reg})()
    Function.service_cnt.clear(); Function.service2global_ctx.clear()
    cb_old = object(); cb_new = object()
    try:
        if cnt:
            Function.service_cnt["d.s"] = cnt; Function.service2global_ctx["d.s"] = names[owner]; reg.reg[("d", "s")] = (cb_old, None)
        exc = None
        try:
            if op == 0:
                Function.service_register(names[who], "d", "s", cb_new)
            else:
                if owner == 0: return verdict(True, False)
                Function.service_remove(names[owner], "d", "s")
        except ValueError as e:
            exc = e
        c2 = Function.service_cnt.get("d.s", 0); o2 = Function.service2global_ctx.get("d.s"); r2 = reg.reg.get(("d", "s"))
    finally:
        Function.hass = saved[0]; Function.service_cnt.clear(); Function.service_cnt.update(saved[1])
        Function.service2global_ctx.clear(); Function.service2global_ctx.update(saved[2])
    if op == 0:
        if owner and owner != who:
            ok = exc is not None and c2 == cnt and o2 == names[owner] and r2 == (cb_old, None)       # refused without side effects
        else:
            ok = exc is None and c2 == cnt + 1 and o2 == names[who] and r2 is not None and r2[0] is cb_new
    else:
        if cnt > 1: ok = c2 == cnt - 1 and o2 == names[owner] and r2 == (cb_old, None)
        else: ok = c2 == 0 and o2 is None and r2 is None
    ok = ok and ((c2 > 0) == (o2 is not None) == (r2 is not None))
    return verdict(ok, True)


# ---------------------------------------------------------------------------------------------- (2) histories
FRAG = {
    # op: (context, script fragment evaluated in that context); GEN is replaced by the generation number
    0: ("a", "@service('pyscript.s1')\ndef f(**kw):\n    global runs\n    runs += [('a', GEN, kw.get('trigger_type'), kw.get('x'))]\n    return {'gen': GEN, 'x': kw.get('x')}\n"),
    1: ("a", "@service('pyscript.s1', supports_response='optional')\n@service('pyscript.s2', supports_response='optional')\ndef f(**kw):\n    global runs\n    runs += [('a', GEN, kw.get('trigger_type'), kw.get('x'))]\n    return {'gen': GEN, 'x': kw.get('x')}\n"),
    2: ("a", "@service('pyscript.s2', supports_response='only')\ndef f(**kw):\n    global runs\n    runs += [('a', GEN, kw.get('trigger_type'), kw.get('x'))]\n    return {'gen': GEN, 'x': kw.get('x')}\n"),
    3: ("a", "del f\n"),
    4: ("b", "@service('pyscript.s1')\ndef h(**kw):\n    global runs\n    runs += [('b', GEN, kw.get('trigger_type'), kw.get('x'))]\n    return {'gen': GEN, 'x': kw.get('x')}\n"),
    5: ("b", "del h\n"),
    6: ("a", None),          # delete context a (reload / file removed)
    7: ("call", "s1"),
    8: ("call", "s2"),
}


def _pick(v, n):
    """concretise a small symbolic index by case split (one solver decision per value)"""
    for i in range(n):
        if v == i: return i
    return v


def history(o1: int, o2: int, o3: int, o4: int, o5: int, x: int) -> bool:
    """
    pre: 0 <= o1 <= 8 and 0 <= o2 <= 8 and 0 <= o3 <= 8 and 0 <= o4 <= 8 and 0 <= o5 <= 8 and o1 == P("first")
    pre: P("last") is None or [o1, o2, o3, o4, o5][P("k") - 1] in P("last")
    post: _
    """
    from vlib.world import mkworld
    from vlib.base import GlobalContextMgr, AstEval, Function, GlobalContext
    from homeassistant.core import SupportsResponse
    n = P("k")
    ops = [_pick(o, 9) for o in [o1, o2, o3, o4, o5][:n]]      # (a symbolic key into the fragment table costs more than the enumeration it stands for)
    with notrace():
        w = mkworld(P("legacy"))
    try:
        with notrace():
            gs = {"a": w.load("file.a", "runs = []\n"), "b": w.load("file.b", "runs = []\n")}
        # model: per context the live function -> (gen, declared names, supports); owner[name] = context
        live = {"a": None, "b": None}; owner = {}; gen = 0; ok = True; alive_ctx = {"a": True, "b": True}; why = []
        sup = {0: "none", 1: "optional", 2: "only", 4: "none"}
        expected_runs = {"a": [], "b": []}
        def drop(cx):
            if live[cx]:
                for nm in live[cx][1]:
                    if owner.get(nm) == cx: del owner[nm]
                live[cx] = None
        for op in ops:
            cx, frag = FRAG[op]
            if cx == "call":
                name = frag
                if w.hass.services.has_service("pyscript", name):
                    want_resp = w.hass.services.supports_response("pyscript", name) != SupportsResponse.NONE
                    t = w.call_service("pyscript", name, {"x": x}, blocking=True, return_response=want_resp)
                    res = t.result() if (t.done() and t.exception() is None) else "exc"
                else:
                    res = "absent"
                oc = owner.get(name)
                if oc is None:
                    if res != "absent": ok = False; why.append(("call-of-undeclared", name, res))
                else:
                    g_, names_, s_ = live[oc]
                    expected_runs[oc].append((oc, g_, "service", x))
                    good = (res == {"gen": g_, "x": x}) if s_ != "none" else (res is None)
                    if not good: ok = False; why.append(("call-result", name, res, g_, s_))
            elif frag is None:
                if alive_ctx["a"]:
                    with notrace():
                        GlobalContextMgr.delete("file.a"); w.settle()
                    alive_ctx["a"] = False
                    expected_runs["a_final"] = list(gs["a"].global_sym_table["runs"])
                    drop("a")
            elif alive_ctx[cx]:
                gen += 1
                with notrace():                                  # the fragment is concrete once the operation index is chosen: definitions run untraced
                    a = AstEval("file." + cx, gs[cx]); Function.install_ast_funcs(a)
                    a.parse(frag.replace("GEN", str(gen)))
                    try:
                        w.run(a.eval())
                    except NameError:
                        pass                                         # `del` of a name that is not defined
                    w.settle()
                    import gc; gc.collect(); w.settle()
                if frag.startswith("del"):
                    drop(cx)
                else:
                    names_ = ["s1", "s2"] if op == 1 else ["s2"] if op == 2 else ["s1"]
                    drop_after = live[cx]
                    # the new definition registers first (names owned by another context are refused), then the old one is released
                    newn = [nm for nm in names_ if owner.get(nm, cx) == cx]
                    if len(newn) != len(names_):
                        newn = []            # a declaration with a refused name is rejected as a whole (error logged): none of its names is registered
                    if drop_after:
                        for nm in drop_after[1]:
                            if owner.get(nm) == cx and nm not in newn: del owner[nm]
                    for nm in newn: owner[nm] = cx
                    live[cx] = (gen, newn, sup[op])
            # after every step: registered <=> some live owner declaration
            for nm in ("s1", "s2"):
                if w.hass.services.has_service("pyscript", nm) != (nm in owner):
                    ok = False; why.append(("has_service", op, nm, w.hass.services.has_service("pyscript", nm)))
                if Function.service2global_ctx.get("pyscript." + nm) != ("file." + owner[nm] if nm in owner else None):
                    ok = False; why.append(("owner", op, nm, Function.service2global_ctx.get("pyscript." + nm)))
        runs_a = expected_runs.get("a_final", list(gs["a"].global_sym_table["runs"]) if alive_ctx["a"] else [])
        runs_b = list(gs["b"].global_sym_table["runs"])
        ok = ok and [tuple(r) for r in runs_a] == expected_runs["a"][:len(runs_a)] and [tuple(r) for r in runs_b] == expected_runs["b"]
    finally:
        w.close()
    if not symbolic_mode():
        detail(why=why, ops=ops, x=x, owner=owner, runs_a=[tuple(r) for r in runs_a], runs_b=[tuple(r) for r in runs_b], expected=expected_runs)
    return verdict(ok, len(expected_runs["a"]) + len(expected_runs["b"]) > 0)


NESTED = '''
runs = []
@service("pyscript.s2")
def top(**kw):
    global runs
    runs += [("top", kw.get("x"))]

@event_trigger("remake")
def maker(drop=False, **kw):
    @service("pyscript.s2")
    def inner(**kw2):
        global runs
        runs += [("inner", kw2.get("x"))]
    global keep, top
    keep = inner
    if drop:
        top = None
'''


def nested_redefine(x1: int, x2: int, drop: bool) -> bool:
    """
    post: _
    """
    # a service redefined from inside a running function of the same file: the file is not refused its own name, calls reach the newest definition
    from vlib.world import mkworld
    from vlib.base import Function
    with notrace():
        w = mkworld(P("legacy"))
    try:
        with notrace():
            g = w.load("file.x", NESTED)
        w.call_service("pyscript", "s2", {"x": x1}, blocking=True)
        w.fire("remake", {"drop": drop})
        with notrace():
            import gc; gc.collect(); w.settle()
        has = w.hass.services.has_service("pyscript", "s2"); owner = Function.service2global_ctx.get("pyscript.s2")
        if has: w.call_service("pyscript", "s2", {"x": x2}, blocking=True)
        runs = [tuple(r) for r in g.global_sym_table["runs"]]
    finally:
        w.close()
    ok = has and owner == "file.x" and len(runs) == 2 and runs[0][0] == "top" and runs[0][1] == x1 and runs[1][0] == "inner" and runs[1][1] == x2
    if not symbolic_mode():
        detail(x=(x1, x2), drop_outer=drop, has_service=has, owner=owner, runs=runs)
    return verdict(ok, True)



ALIAS = "runs = []\n@service('pyscript.s1', 'pyscript.s2')\ndef f(**kw):\n    global runs\n    runs += [kw.get('x')]\n"


def alias_args(x: int) -> bool:
    """
    post: _
    """
    # documented: several arguments of one @service register several names for the same function
    from vlib.world import mkworld
    with notrace():
        w = mkworld(P("legacy"))
    try:
        with notrace():
            g = w.load("file.a", ALIAS)
        have = (w.hass.services.has_service("pyscript", "s1"), w.hass.services.has_service("pyscript", "s2"))
        if all(have):
            w.call_service("pyscript", "s1", {"x": x}, blocking=True); w.call_service("pyscript", "s2", {"x": x + 1}, blocking=True)
        runs = list(g.global_sym_table.get("runs", []))
    finally:
        w.close()
    if not symbolic_mode():
        detail(registered=have, runs=runs)
    return verdict(have == (True, True) and runs == [x, x + 1], True)


def classify_alias(args, detail_, info):
    return detail_.get("registered") == [False, False] or detail_.get("registered") == (False, False)


OVERLAP = '''
res = []
@service("pyscript.slow", supports_response="optional")
def slow(tag=None, dur=0, **kw):
    task.sleep(dur)
    return {"tag": tag}
'''


def overlapping_calls(d1: int, d2: int) -> bool:
    """
    pre: 0 <= d1 <= 2 and 0 <= d2 <= 2
    post: _
    """
    # two calls of one service in flight at the same time: each returns its own data (no shared interpreter state between calls)
    from vlib.world import mkworld, SEC
    with notrace():
        w = mkworld(P("legacy"))
    try:
        with notrace():
            w.load("file.a", OVERLAP)
        t1 = w.call_service("pyscript", "slow", {"tag": "first", "dur": d1}, blocking=True, return_response=True)
        t2 = w.call_service("pyscript", "slow", {"tag": "second", "dur": d2}, blocking=True, return_response=True)
        w.advance(5 * SEC)
        r = (t1.result() if t1.done() and not t1.exception() else "x", t2.result() if t2.done() and not t2.exception() else "x")
    finally:
        w.close()
    if not symbolic_mode():
        detail(durations=(d1, d2), results=r)
    return verdict(r == ({"tag": "first"}, {"tag": "second"}), True)


# ---------------------------------------------------------------------------------------------- (3) outgoing calls
OUT = '''
@event_trigger("go")
def caller(**kw):
    global out
    try:
        if FORM == 0:
            out = service.call("test", "svc", **ARGS)
        else:
            out = test.svc(**ARGS)
    except Exception as e:
        out = type(e).__name__
'''


def outgoing(form: int, hb: int, hr: int, hc: int, sup: int, v: int) -> bool:
    """
    pre: 0 <= form <= 1 and 0 <= hb <= 3 and 0 <= hr <= 3 and 0 <= hc <= 2 and 0 <= sup <= 2
    post: _
    """
    # hb / hr: blocking / return_response absent, True, False, or present with a non-bool value (then it is ordinary service data);
    # hc: context absent, a Context object, or a non-Context value
    from vlib.world import mkworld
    from homeassistant.core import Context, SupportsResponse
    with notrace():
        w = mkworld(False)
    try:
        myctx = Context(id="given")
        args = {"x": v}
        for key, h in (("blocking", hb), ("return_response", hr)):
            if h == 1: args[key] = True
            elif h == 2: args[key] = False
            elif h == 3: args[key] = "text"
        if hc == 1: args["context"] = myctx
        elif hc == 2: args["context"] = "ctx-as-data"
        with notrace():
            async def handler(call): return {"ok": 1}
            w.hass.services.async_register("test", "svc", handler, supports_response=[SupportsResponse.NONE, SupportsResponse.OPTIONAL, SupportsResponse.ONLY][sup])
            g = w.load("file.a", OUT, extra={"FORM": form, "ARGS": {**args}, "out": None})
        incoming = Context(id="incoming")
        w.fire("go", {}, context=incoming)
        calls = [c for c in w.hass.services.calls if c["service"] == "svc"]
    finally:
        w.close()
    exp_data = {k: val for k, val in args.items() if not ((k in ("blocking", "return_response") and isinstance(val, bool)) or (k == "context" and isinstance(val, Context)))}
    exp_rr = args.get("return_response") if isinstance(args.get("return_response"), bool) else None
    exp_bl = args.get("blocking") if isinstance(args.get("blocking"), bool) else None
    if exp_rr is None and sup == 2: exp_rr = True
    if exp_rr and exp_bl is None: exp_bl = True
    ok = len(calls) == 1
    if ok:
        c = calls[0]
        ok = c["data"] == exp_data and c["return_response"] == bool(exp_rr) and c["blocking"] == bool(exp_bl)
        ok = ok and (c["context"] is myctx if hc == 1 else (c["context"] is not None and c["context"].parent_id == "incoming"))
    if not symbolic_mode():
        detail(form=form, args={k: str(val) for k, val in args.items()}, supports=sup, calls=[{k: str(val) for k, val in c.items()} for c in calls], expected_data=exp_data)
    return verdict(ok, True)


def obligations(tier):
    o = []
    o.append(Obl("C12.register_step", __name__, "register_step", {}, timeout=300, twin=False,
                 desc="service_register / service_remove from an arbitrary valid (count, owner, registry) table: invariant count>0 <=> registered <=> owner preserved; a second owner is refused "
                      "without side effects; the registration goes away exactly when the count reaches zero",
                 sym="count 0..3, owner in {none, a, b}, acting context, operation - symbolic"))
    k = 4          # (5 operations did not finish within 25 min on 16 cores: not offered)
    for legacy in (False, True):
        for first in (0, 1, 2, 4):
            o.append(Obl(f"C12.history.first{first}.{'legacy' if legacy else 'default'}", __name__, "history", {"legacy": legacy, "k": k, "first": first, "last": None}, timeout=1500 if tier == "quick" else 3000,
                         desc="after every define / redefine (same name, aliases, other name, response modes) / del / competing definition in a second context / context deletion: has_service and "
                              "the owner table equal the live owner declarations; a call runs the newest definition with the call's data and trigger_type='service' and returns its value when a response is supported",
                         sym=f"{k} operations (first fixed to kind {first}) out of 9 kinds; call data x symbolic int", real_loop=True, twin=(first == 0),
                         known="C12.new.owner" if False else "", encodes=("function.Function.service_register", "function.Function.service_remove")))
        o.append(Obl(f"C12.overlap.{'legacy' if legacy else 'default'}", __name__, "overlapping_calls", {"legacy": legacy}, timeout=600,
                     desc="two calls of the same service in flight together each see and return their own data", sym="durations of the two calls in {0,1,2} s - symbolic", real_loop=True))
    for legacy in (False, True):
        o.append(Obl(f"C12.alias_args.{'legacy' if legacy else 'default'}", __name__, "alias_args", {"legacy": legacy}, timeout=300,
                     desc="@service('pyscript.s1', 'pyscript.s2'): both names are registered and call the function", sym="call data symbolic", real_loop=False, twin=False,
                     known="" if legacy else "C12.new.alias_args", classifier="" if legacy else "classify_alias"))
    for legacy in (False, True):
        o.append(Obl(f"C12.nested_redefine.{'legacy' if legacy else 'default'}", __name__, "nested_redefine", {"legacy": legacy}, timeout=300,
                     desc="a @service redefined under the same name from inside a running trigger function of the same file stays registered, owned by the file, and calls reach the new definition",
                     sym="call data before and after, whether the outer definition is dropped - symbolic", real_loop=True, twin=False))
    o.append(Obl("C12.outgoing", __name__, "outgoing", {}, timeout=900,
                 desc="service.call(...) and DOMAIN.service(...): the registry receives exactly the remaining keyword parameters; blocking / return_response are control arguments only when bool, "
                      "context only when a Context; return_response implies blocking; a response-only service gets return_response; otherwise the run's own context (child of the trigger's) is attached",
                 sym="form (2), presence/type of blocking, return_response (4 each), context (3), supports_response (3), data value - symbolic",
                 encodes=("function.Function.service_call", "function.Function.hass_services_async_call")))
    return o
