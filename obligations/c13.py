"""C13 - task.unique guarantees at most one live owner per name.

(1) Inductive steps from an ARBITRARY valid state of (unique_name2task, unique_task2name, our_tasks): one real task.unique(name, kill_me) call by
    a symbolic caller, or one task exit through the real run_coro `finally`, preserves the invariant and has exactly the specified effect.
    One step from every valid state covers histories of any length, provided the invariant is right; (2) cross-checks it on real histories.
(2) Full stack: three runs claim names (task.unique in the body, or @task_unique on the function) at symbolic times with symbolic name,
    kill_me and duration; who ran to the end, who was cancelled, and the owner table at quiescence must equal the sequential oracle.
"""
import asyncio

from vlib import ctx
from vlib.ctx import P, verdict, detail
from vlib.obl import Obl
from vlib.base import run, symbolic_mode, notrace

LEVEL = "model_checking"
EXPLANATION = ("inductive-step obligations on the real Function.task_unique_factory / run_coro from a symbolic valid state, plus bounded full-stack histories with symbolic timing; "
               "postconditions decided by z3 on every path")
BOUNDS = {"quick": "state: 3 names x 2 contexts x 4 task handles, any valid assignment; histories: 3 runs, gaps in {0..2 s}, durations in {0,1,2 s}",
          "thorough": "histories with 4 runs"}
OUTSIDE = "real event-loop fairness (the harness switches tasks only at await, like asyncio); more tasks/names than the bound"
ASSUMPTIONS = ["Inv: the two maps are mutual inverses and every recorded owner is in our_tasks (a counterexample from a state violating a stronger true invariant would be a harness issue, not a finding)",
               "cancellation requests are observed on a recording reaper queue in the step obligations; the real reaper task runs in the history obligations"]

NAMES = ["n0", "n1", "n2"]
CTXS = ["ctxA", "ctxB"]


class T:
    def __init__(self, i): self.i = i
    def __repr__(self): return f"T{self.i}"
    def done(self): return False


TASKS = [T(i) for i in range(4)]


class Ctx:
    def __init__(self, n): self.n = n
    def get_global_ctx_name(self): return self.n


class RQ:
    def __init__(self): self.items = []
    def put_nowait(self, x): self.items.append(x)


class Slept(BaseException):
    pass


def _state(owners, ours):
    """owners: 6 ints (-1 none, 0..3 task) for ctxA.n0..n2, ctxB.n0..n2; the obligation's size parameters pin unused slots to 'none'"""
    keys = [c + "." + n for c in CTXS for n in NAMES]
    nt = P("ntasks"); used = P("used")
    owners = [(o if (k in used and o < nt) else -1) for k, o in zip(keys, owners)]
    ours = ours & ((1 << nt) - 1)
    n2t = {}; t2n = {}
    for k, o in zip(keys, owners):
        for i in range(4):
            if o == i:
                n2t[k] = TASKS[i]
                t2n.setdefault(TASKS[i], set()).add(k)
    our = set(TASKS[i] for i in range(4) if (ours >> i) & 1)
    return n2t, t2n, our


def _canon(owners, ours):
    """each abstract state is visited once: unused slots must already be 'none' and unused task bits 0 in the symbolic inputs"""
    keys = [c + "." + n for c in CTXS for n in NAMES]
    nt = P("ntasks"); used = P("used")
    for k, o in zip(keys, owners):
        if (k not in used and o != -1) or o >= nt: return False
    return ours < (1 << nt)


def _inv(n2t, t2n, our):
    for k, t in n2t.items():
        if k not in t2n.get(t, set()) or t not in our: return False
    for t, ks in t2n.items():
        for k in ks:
            if n2t.get(k) is not t: return False
    return True


def unique_step(a0: int, a1: int, a2: int, b0: int, b1: int, b2: int, ours: int, kill_me: bool) -> bool:
    """
    pre: -1 <= a0 <= 3 and -1 <= a1 <= 3 and -1 <= a2 <= 3 and -1 <= b0 <= 3 and -1 <= b1 <= 3 and -1 <= b2 <= 3 and 0 <= ours < 16
    post: _
    """
    from custom_components.pyscript.function import Function
    caller = P("caller"); name = P("name"); cx = P("ctx")
    if not _canon([a0, a1, a2, b0, b1, b2], ours): return verdict(True, False)
    n2t, t2n, our = _state([a0, a1, a2, b0, b1, b2], ours)
    if not _inv(n2t, t2n, our):
        return verdict(True, False)
    cur = TASKS[caller]; key = CTXS[cx] + "." + NAMES[name]
    saved = (Function.unique_name2task, Function.unique_task2name, Function.our_tasks, Function.task_reaper_q, asyncio.current_task, asyncio.sleep)
    Function.unique_name2task = n2t; Function.unique_task2name = t2n; Function.our_tasks = our; Function.task_reaper_q = RQ()
    asyncio.current_task = lambda: cur
    async def sl(x): raise Slept()
    asyncio.sleep = sl
    prev = n2t.get(key)
    before = {k: v for k, v in n2t.items()}
    before_names = {t: set(ks) for t, ks in t2n.items()}
    slept = False
    try:
        coro = Function.task_unique_factory(Ctx(CTXS[cx]))(NAMES[name], kill_me)
        try:
            coro.send(None)
        except StopIteration:
            pass
        except Slept:
            slept = True
        cancels = [c[1] for c in Function.task_reaper_q.items]
        n2t2 = Function.unique_name2task; t2n2 = Function.unique_task2name
    finally:
        Function.unique_name2task, Function.unique_task2name, Function.our_tasks, Function.task_reaper_q, asyncio.current_task, asyncio.sleep = saved
    ok = _inv(n2t2, {t: ks for t, ks in t2n2.items() if ks}, our | ({cur} if cur in our else set()))
    if kill_me and prev is not None and prev is not cur:
        # another task owns the name: only the caller is told to die, nothing else changes
        ok = ok and slept and cancels == [cur] and n2t2 == before
    else:
        ok = ok and not slept
        exp_c = [prev] if (prev is not None and prev is not cur and prev in our and not kill_me) else []
        ok = ok and cancels == exp_c                                    # tasks not started by pyscript are never cancelled
        if cur in our:
            ok = ok and n2t2.get(key) is cur
            # the caller keeps its other names
            ok = ok and all(n2t2.get(k) is cur for k in before_names.get(cur, set()))
        else:
            ok = ok and n2t2.get(key) is prev
        # every other name (this and the other context) keeps its owner
        ok = ok and all(n2t2.get(k) is before[k] for k in before if k != key) and all(k in before or k == key for k in n2t2)
    return verdict(ok, prev is not None)


def exit_step(a0: int, a1: int, a2: int, b0: int, b1: int, b2: int, ours: int, raises: bool) -> bool:
    """
    pre: -1 <= a0 <= 3 and -1 <= a1 <= 3 and -1 <= a2 <= 3 and -1 <= b0 <= 3 and -1 <= b1 <= 3 and -1 <= b2 <= 3 and 0 <= ours < 16
    post: _
    """
    from custom_components.pyscript.function import Function
    caller = P("caller")
    if not _canon([a0, a1, a2, b0, b1, b2], ours): return verdict(True, False)
    n2t, t2n, our = _state([a0, a1, a2, b0, b1, b2], ours)
    cur = TASKS[caller]
    if not _inv(n2t, t2n, our) or cur not in our:
        return verdict(True, False)
    saved = (Function.unique_name2task, Function.unique_task2name, Function.our_tasks, asyncio.current_task, dict(Function.task2cb), dict(Function.task2context))
    Function.unique_name2task = n2t; Function.unique_task2name = t2n; Function.our_tasks = our
    asyncio.current_task = lambda: cur
    Function.task2context[cur] = "ctx"
    before = {k: v for k, v in n2t.items()}
    async def body():
        if raises: raise ValueError("x")
        return 7
    try:
        res = run(Function.run_coro(body()))
        n2t2 = Function.unique_name2task; t2n2 = Function.unique_task2name; our2 = Function.our_tasks
        ctx_left = cur in Function.task2context
    finally:
        Function.unique_name2task, Function.unique_task2name, Function.our_tasks, asyncio.current_task = saved[:4]
        Function.task2cb.clear(); Function.task2cb.update(saved[4]); Function.task2context.clear(); Function.task2context.update(saved[5])
    ok = _inv(n2t2, t2n2, our2) and cur not in our2 and cur not in t2n2 and not ctx_left
    ok = ok and all((k not in n2t2) if before[k] is cur else (n2t2.get(k) is before[k]) for k in before) and all(k in before for k in n2t2)
    ok = ok and (res == (None if raises else 7))
    return verdict(ok, any(v is cur for v in before.values()))


# ---------------------------------------------------------------------------------------------- histories on the full stack
HSRC = '''
log = []
@event_trigger("go")
def runner(i=0, name="n0", kill_me=False, dur=0, **kw):
    global log
    task.unique(name, kill_me=kill_me)
    log += [("own", i)]
    task.sleep(dur)
    log += [("end", i)]

@event_trigger("go2")
@task_unique("dn", kill_me=KM)
def decorated(i=0, dur=0, **kw):
    global log
    log += [("own", i)]
    task.sleep(dur)
    log += [("end", i)]

@event_trigger("probe")
def probe(**kw):
    global log
    log += [("names", sorted(task.name2id().keys()))]
'''


def history(g1: int, g2: int, n0: int, n1: int, n2: int, k0: bool, k1: bool, k2: bool, d0: int, d1: int, d2: int) -> bool:
    """
    pre: 0 <= g1 <= P("maxgap") and 0 <= g2 <= P("maxgap") and 0 <= n0 <= 1 and 0 <= n1 <= 1 and 0 <= n2 <= 1 and 0 <= d0 <= 1 and 0 <= d1 <= 1 and 0 <= d2 <= 1
    post: _
    """
    from vlib.world import mkworld, SEC
    form = P("form")              # "body": task.unique in the function body; "decorator": @task_unique
    if P("kms") is not None:
        k0, k1, k2 = P("kms")
    if P("maxgap") == 1:
        n0 = 0; d2 = 1                           # quick tier: first run's name and last run's duration fixed
    d0, d1, d2 = d0 * 2, d1 * 2, d2 * 2          # durations 0 or 2 s
    runs = [(0, n0, k0, d0), (g1, n1, k1, d1), (g1 + g2, n2, k2, d2)]
    if form == "decorator":
        km = P("kill_me")
        runs = [(t, 0, km, d) for (t, n, k, d) in runs]
    # durations that end exactly when a later run starts are ties: outside the property's grid
    for i, (t, n, k, d) in enumerate(runs):
        for (t2, _, _, _) in runs[i + 1:]:
            if d > 0 and t + d == t2: return verdict(True, False)
    with notrace():
        w = mkworld(P("legacy"))
    try:
        with notrace():
            g = w.load("file.x", HSRC, extra={"KM": bool(P("kill_me"))})
        for i, (t, n, k, d) in enumerate(runs):
            w.advance(t * SEC)
            if form == "body":
                w.fire("go", {"i": i, "name": "n%d" % n, "kill_me": k, "dur": d})
            else:
                w.fire("go2", {"i": i, "dur": d})
        w.advance(runs[-1][0] * SEC + 500000)
        w.fire("probe", {})
        w.advance(10 * SEC)
        w.fire("probe", {})
        log = [tuple(x) if not isinstance(x[1], list) else (x[0], tuple(x[1])) for x in g.global_sym_table["log"]]
    finally:
        w.close()
    # sequential oracle
    owner = {}; alive = {}; own = []; killed = set(); ends = {}
    exp_names_mid = None
    for i, (t, n, k, d) in enumerate(runs):
        for j in list(alive):                                         # runs that finished before t release their names
            if ends[j] <= t and j not in killed:
                alive.pop(j); owner = {nm: o for nm, o in owner.items() if o != j}
        nm = ("n%d" % n) if form == "body" else "dn"
        cur_owner = owner.get(nm)
        if k and cur_owner is not None:
            killed.add(i); ends[i] = t; continue                      # kill_me: the newcomer dies, nothing else changes
        if cur_owner is not None:
            killed.add(cur_owner); alive.pop(cur_owner, None)
        owner[nm] = i; alive[i] = True; own.append(i); ends[i] = t + d
    tmid = runs[-1][0]
    mid_owner = {nm: o for nm, o in owner.items() if o not in killed and (ends[o] > tmid or (ends[o] == tmid and False))}
    exp_own = [("own", i) for i in own]
    exp_end = sorted(i for i in own if i not in killed)
    got_own = [x for x in log if x[0] == "own"]
    got_end = sorted(x[1] for x in log if x[0] == "end")
    names = [x[1] for x in log if x[0] == "names"]
    ok = got_own == exp_own and got_end == exp_end and len(names) == 2 and names[1] == ()
    ok = ok and names[0] == tuple(sorted(mid_owner))
    if not symbolic_mode():
        detail(form=form, runs=runs, log=log, expected_own=exp_own, expected_end=exp_end, expected_names_mid=sorted(mid_owner))
    return verdict(ok, len(killed) > 0)


def obligations(tier):
    o = []
    if tier == "quick":
        nt, used = 3, ["ctxA.n0", "ctxA.n1", "ctxB.n0"]
    else:
        nt, used = 4, ["ctxA.n0", "ctxA.n1", "ctxA.n2", "ctxB.n0"]
    size = {"ntasks": nt, "used": used}
    for caller in range(nt):
        for name in range(2 if tier == "quick" else 3):
            o.append(Obl(f"C13.step.unique.t{caller}.n{name}", __name__, "unique_step", {"caller": caller, "name": name, "ctx": 0, **size}, timeout=900 if tier == "quick" else 3000,
                         desc="one task.unique(name, kill_me) from an arbitrary valid state: Inv preserved; previous owner (if another pyscript task) gets exactly one cancel request, foreign tasks "
                              "never; caller becomes owner and keeps its other names; kill_me with a different owner only asks for the caller's own cancellation; other names and contexts untouched",
                         sym=f"owner of each of {len(used)} (context, name) pairs in {{none, T0..T{nt - 1}}}, membership of the {nt} task handles in our_tasks, kill_me - symbolic",
                         twin=(caller == 0 and name == 0), encodes=("function.Function.task_unique_factory.<locals>.task_unique",)))
        o.append(Obl(f"C13.step.exit.t{caller}", __name__, "exit_step", {"caller": caller, **size}, timeout=900 if tier == "quick" else 3000,
                     desc="a task ending (return or exception) through run_coro's finally releases exactly its own names, its context and its our_tasks entry; Inv preserved",
                     sym="as C13.step.unique; outcome {return, raise} symbolic", twin=(caller == 0), encodes=("function.Function.run_coro",)))
    maxgap = 1 if tier == "quick" else 2
    for legacy in (False, True):
        for kms in [(a, b, c) for a in (False,) for b in (False, True) for c in (False, True)]:
            tag = "".join("k" if x else "n" for x in kms)
            o.append(Obl(f"C13.history.body.{tag}.{'legacy' if legacy else 'default'}", __name__, "history", {"form": "body", "legacy": legacy, "kill_me": False, "kms": list(kms), "maxgap": maxgap},
                         timeout=1200, desc=f"three runs calling task.unique(name, kill_me={list(kms)}) then sleeping: who claims, who is cancelled, who ends, and task.name2id() at two quiescent "
                         "points equal the sequential oracle",
                         sym=f"start gaps in 0..{maxgap} s (0 = same instant), name in 2, duration in {{0, 2}} s per run - symbolic", real_loop=True, twin=(tag == "nnn"),
                         encodes=("function.Function.task_unique_factory.<locals>.task_unique", "function.Function.run_coro")))
        for km in (False, True):
            o.append(Obl(f"C13.history.decorator.km{int(km)}.{'legacy' if legacy else 'default'}", __name__, "history", {"form": "decorator", "legacy": legacy, "kill_me": km, "kms": None, "maxgap": maxgap},
                         timeout=1200, desc=f"@task_unique('dn', kill_me={km}) on an event-triggered function, three occurrences: same oracle", sym="start gaps, durations - symbolic", real_loop=True, twin=False))
    return o
