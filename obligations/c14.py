"""C14 - every run is an independent task whose exit always cleans up.

Full stack: a script creates tasks (task.create, trigger occurrences, service calls), attaches / removes done-callbacks, waits, cancels.
Symbolic: how the body ends (return value, raise, cancelled at a symbolic suspension point, by itself or by another task), which
callbacks are added / re-added / removed, whether a callback raises or suspends, and when a second cancel arrives.
"""
from vlib import ctx
from vlib.ctx import P, verdict, detail
from vlib.obl import Obl
from vlib.base import symbolic_mode, notrace

LEVEL = "model_checking"
EXPLANATION = ("symbolic execution through the full stack of Function.run_coro / create_task / task_add_done_callback / user_task_remove_done_callback / user_task_cancel / "
               "user_task_wait / task.create / task.executor with a symbolic outcome and cancellation point, symbolic callback operations and a symbolic second cancel")
BOUNDS = {"quick": "1 worker task with 3 suspension points, outcome in {return, raise, cancel-self at point i, cancelled by another task at time t}, 3 callback operations over 3 callbacks, "
                   "callback A may raise, callback B may suspend; second cancel at a symbolic time", "thorough": "4 callback operations"}
OUTSIDE = "real thread-pool execution of task.executor (executor = direct call); more tasks than the bound"
ASSUMPTIONS = ["stub Home Assistant + harness scheduler + virtual clock; real reaper and waiter tasks; counterexamples replayed on a real asyncio loop"]

SRC = '''
log = []
box = {}

def cb_a(tag):
    global log
    log += [("cb_a", tag)]
    if RAISE_A:
        raise ValueError("cb_a fails")

def cb_b(tag, extra=0):
    global log
    log += [("cb_b_start", tag, extra)]
    if SLOW_B:
        task.sleep(1)
    log += [("cb_b_end", tag)]

def cb_c():
    global log
    log += [("cb_c",)]

def worker(outcome, point):
    global log
    task.unique("w")
    task.unique("w2")          # a task may own several names (re-claiming one is harmless); all are forgotten when it ends
    task.unique("w")
    for i in range(3):
        log += [("step", i)]
        if outcome == 2 and point == i:
            task.cancel()
        task.sleep(1)
    if outcome == 1:
        raise KeyError("worker fails")
    log += [("done",)]
    return 42

@event_trigger("start")
def starter(outcome=0, point=0, ops=None, **kw):
    global log, box
    t = task.create(worker, outcome, point)
    box["t"] = t
    for op in ops:
        if op == 0: task.add_done_callback(t, cb_a, "a1")
        elif op == 1: task.add_done_callback(t, cb_a, "a2")
        elif op == 2: task.add_done_callback(t, cb_b, "b1", extra=7)
        elif op == 3: task.add_done_callback(t, cb_c)
        elif op == 4: task.remove_done_callback(t, cb_a)
        elif op == 5: task.remove_done_callback(t, cb_b)
    done, pending = task.wait({t})
    r = None
    if t.cancelled():
        r = "cancelled"
    elif t.exception() is not None:
        r = "exc"
    else:
        r = t.result()
    log += [("waited", r)]

@event_trigger("kill")
def killer(**kw):
    task.cancel(box["t"])

@event_trigger("other")
def other(n=0, **kw):
    global log
    log += [("other", n)]


@service
def exe(**kw):
    global log
    log += [("exe", task.executor(NATIVE, 3, y=4))]
    try:
        task.executor(NATIVE_RAISES)
    except ZeroDivisionError:
        log += [("exe_raised",)]
'''


def lifecycle(outcome: int, point: int, o1: int, o2: int, o3: int, o4: int, kt: int, k2: int, ra: bool, sb: bool) -> bool:
    """
    pre: 0 <= outcome <= 3 and 0 <= point <= 2 and 0 <= o1 <= 5 and 0 <= o2 <= 5 and 0 <= o3 <= 5 and 0 <= o4 <= 5 and 0 <= kt <= 5 and 0 <= k2 <= 3
    pre: (P("oc") is None or outcome == P("oc")) and (outcome == 3 or (kt == 0 and k2 == 0)) and (outcome == 2 or point == 0)
    pre: (P("kt") is None or outcome != 3 or kt == P("kt")) and k2 <= P("maxk2") and (P("ra") is None or (ra == P("ra") and not sb and outcome <= 2))
    post: _
    """
    # outcome: 0 return, 1 raise, 2 cancels itself at step `point`, 3 cancelled by another task at time kt/2 s; a second cancel k2/2 s later (k2 == 0: none)
    from vlib.world import mkworld, SEC
    from custom_components.pyscript.function import Function
    nops = P("nops")
    ops = [o1, o2, o3, o4][:nops]
    if outcome == 3 and kt % 2 == 0 and kt // 2 <= 3 and False:
        pass
    with notrace():
        w = mkworld(P("legacy"))
    try:
        with notrace():
            def native(x, y=0): return x * y
            def native_raises(): return 1 // 0
            g = w.load("file.x", SRC, extra={"RAISE_A": ra, "SLOW_B": sb, "NATIVE": native, "NATIVE_RAISES": native_raises})
            base_tasks = (len(Function.our_tasks), len(Function.task2cb), len(Function.task2context), len(Function.unique_task2name), len(Function.unique_name2task))
        w.fire("start", {"outcome": outcome, "point": point, "ops": ops})
        kill_at = None
        if outcome == 3:
            kill_at = kt * 500000 + 250000                 # never exactly on a step boundary
            w.advance(kill_at); w.fire("kill", {})
            if k2:
                w.advance(kill_at + k2 * 250000); w.fire("kill", {})
        w.fire("other", {"n": 1})                            # other runs are never delayed or terminated
        w.advance(3 * SEC + 100000)
        w.fire("other", {"n": 2})
        w.call_service("pyscript", "exe", {})
        w.advance(9 * SEC)
        log = [tuple(x) for x in g.global_sym_table["log"]]
        after_tasks = (len(Function.our_tasks), len(Function.task2cb), len(Function.task2context), len(Function.unique_task2name), len(Function.unique_name2task))
    finally:
        w.close()
    # ---- oracle
    cbs = {}                                     # callback function -> args (dict order = registration order, re-adding replaces in place)
    for op in ops:
        if op == 0: cbs["a"] = ("cb_a", "a1")
        elif op == 1: cbs["a"] = ("cb_a", "a2")
        elif op == 2: cbs["b"] = ("cb_b_start", "b1", 7)
        elif op == 3: cbs["c"] = ("cb_c",)
        elif op == 4: cbs.pop("a", None)
        elif op == 5: cbs.pop("b", None)
    if outcome in (0, 1): nsteps = 3
    elif outcome == 2: nsteps = point + 1
    else: nsteps = min(3, kill_at // SEC + 1)
    killed_late = outcome == 3 and kill_at > 3 * SEC     # the worker had already finished
    exp_steps = [("step", i) for i in range(nsteps)]
    result = {0: 42, 1: None, 2: "cancelled", 3: "cancelled"}[outcome]
    if outcome == 3 and killed_late: result = 42
    steps = [x for x in log if x[0] == "step"]
    ok = steps == exp_steps
    ok = ok and ([x for x in log if x[0] == "done"] == ([("done",)] if result == 42 else []))
    ok = ok and [x for x in log if x[0] == "waited"] == [("waited", result)]
    # each registered-and-not-removed callback ran exactly once, with its arguments, in registration order
    got_cb = [x for x in log if x[0] in ("cb_a", "cb_b_start", "cb_c")]
    part = P("part")
    if part == "callbacks_after_raise":
        ok = got_cb == list(cbs.values())
    else:
        want = list(cbs.values())
        if ra and "a" in cbs:
            # (what follows a raising callback is checked by the *.after_raise obligation)
            want = want[:list(cbs).index("a") + 1]; got_cb = got_cb[:len(want)]
        ok = ok and got_cb == want
        ok = ok and [x for x in log if x[0] == "other"] == [("other", 1), ("other", 2)]
        ok = ok and [x for x in log if x[0] in ("exe", "exe_raised")] == [("exe", 12), ("exe_raised",)]
        ok = ok and after_tasks == base_tasks
        if "b" in cbs and not (ra and "a" in cbs and list(cbs).index("a") < list(cbs).index("b")):
            ok = ok and [x for x in log if x[0] == "cb_b_end"] == [("cb_b_end", "b1")]      # a suspended callback finishes even if another cancel arrives
    if not symbolic_mode():
        detail(outcome=outcome, point=point, ops=ops, kill_at=kill_at, second=k2, raise_a=ra, slow_b=sb, log=log, expected_callbacks=list(cbs.values()), registries_before=base_tasks, registries_after=after_tasks)
    return verdict(ok, len(cbs) > 0)


def obligations(tier):
    o = []
    nops = 2 if tier == "quick" else 3
    maxk2 = 1 if tier == "quick" else 3
    kts = [1, 3, 5] if tier == "quick" else [0, 1, 2, 3, 4, 5]
    for legacy in (False, True):
        for oc in range(4):
            for kt in (kts if oc == 3 else [None]):
                o.append(Obl(f"C14.lifecycle.outcome{oc}{'' if kt is None else '.kill_at_%d' % kt}.{'legacy' if legacy else 'default'}", __name__, "lifecycle",
                             {"legacy": legacy, "nops": nops, "part": "main", "oc": oc, "kt": kt, "maxk2": maxk2, "ra": None}, timeout=1500,
                             desc="task.create'd worker ending by " + ["return", "exception", "task.cancel() of itself at a symbolic step", "task.cancel from another task (+ optional second cancel)"][oc] +
                                  ": steps reached, task.wait/result/exception/cancelled seen by the waiter, each registered-and-not-removed done-callback run exactly once with its arguments, "
                                  "other runs and task.executor unaffected, and our_tasks/task2cb/task2context/unique tables back to their size before",
                             sym=f"{nops} callback operations over add(cb_a,'a1') / add(cb_a,'a2') / add(cb_b) / add(cb_c) / remove(cb_a) / remove(cb_b); cancellation step; second cancel delay 0..{maxk2} x 0.25 s; "
                                 "cb_a raises?; cb_b suspends? - symbolic", real_loop=True, twin=(oc == 0),
                             encodes=("function.Function.run_coro", "function.Function.task_add_done_callback")))
        o.append(Obl(f"C14.after_raise.{'legacy' if legacy else 'default'}", __name__, "lifecycle", {"legacy": legacy, "nops": nops, "part": "callbacks_after_raise", "oc": None, "kt": None, "maxk2": 0, "ra": True},
                     timeout=1500, desc="a done-callback that raises does not prevent the remaining callbacks from running", sym=f"{nops} callback operations, outcome in return/raise/self-cancel - symbolic",
                     real_loop=True, twin=False))
    return o
