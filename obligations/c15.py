"""C15 - task.wait_until returns for the first qualifying trigger and always cleans up.

Full stack: a script function calls task.wait_until(...); what happens around the call (state writes, events, cancellation of the waiting
task, and when) is symbolic.  Checked: the returned dictionary and the virtual return time against an oracle, and - on every exit path -
that every subscription, bus listener and timer the call created is gone.
"""
from vlib import ctx
from vlib.ctx import P, verdict, detail
from vlib.obl import Obl
from vlib.base import symbolic_mode, notrace

LEVEL = "model_checking"
EXPLANATION = ("symbolic execution of the real TrigTime.wait_until (legacy) and DecoratorRegistry.wait_until / WaitUntilDecoratorManager (default) through the full stack; "
               "timed history and the cancellation instant symbolic; return value/time oracle plus restoration of all notify tables, bus listeners and pending timers")
BOUNDS = {"quick": "2 operations after the call (+ 1 before it), gaps in [1 ms, 4 s], timeout 3 s; 9 argument combinations x 2 subsystems",
          "thorough": "3 operations after the call"}
OUTSIDE = "exact ties between an operation and the timeout; MQTT/webhook conditions (same code path as events, covered in C08); more operations than the bound"
ASSUMPTIONS = [
    "stub Home Assistant + harness scheduler + virtual clock; counterexamples replayed on a real asyncio loop",
    "the waiting task is cancelled the way scripts do it (task.cancel from another function, i.e. through pyscript's reaper)",
]

T_US = 3_000_000
SRC = '''
res = []
tk = []
@event_trigger("go")
def waiter(**kw):
    global res, tk
    tk += [task.current_task()]
    try:
        r = task.wait_until({args})
        res += [(T(), SUM(r))]
    except ZeroDivisionError:
        res += [(T(), "exc")]

@event_trigger("kill")
def killer(**kw):
    task.cancel(tk[0])
'''
CFGS = {
    # name: (wait_until arguments, has state, check_now, has event, timeout us or None, time trigger kind)
    "all": ('state_trigger="pyscript.a == \'1\'", event_trigger=["ev", "n > 1"], timeout=3', True, True, True, T_US, None),
    "state_timeout": ('state_trigger="pyscript.a == \'1\'", timeout=3', True, True, False, T_US, None),
    "state_nocheck": ('state_trigger="pyscript.a == \'1\'", state_check_now=False, timeout=3', True, False, False, T_US, None),
    "event_only": ('event_trigger=["ev", "n > 1"]', False, True, True, None, None),
    "event_nofilter_timeout": ('event_trigger="ev", timeout=3', False, True, "nofilter", T_US, None),
    "timeout0": ('state_trigger="pyscript.a == \'1\'", event_trigger="ev", timeout=0', True, True, "nofilter", 0, None),
    "time": ('time_trigger="once(now + 2s)", event_trigger=["ev", "n > 1"]', False, True, True, None, "in2s"),
    "time_none": ('time_trigger="once(2020/6/1 11:00)"', False, True, False, None, "past"),
    "raise": ('event_trigger=["ev", "1 / (n - 1) > 0"], timeout=3', False, True, "raise", T_US, None),
}


def summary(r):
    if not isinstance(r, dict): return repr(r)
    d = {k: (str(v) if k in ("value", "old_value") and v is not None else v) for k, v in r.items() if k not in ("context", "trigger_time")}
    return tuple(sorted(d.items()))


def wait(p: int, g1: int, k1: int, g2: int, k2: int, g3: int, k3: int) -> bool:
    """
    pre: 0 <= p <= 2 and 1 <= g1 <= 4000 and 1 <= g2 <= 4000 and 1 <= g3 <= 4000 and 0 <= k1 <= 4 and 0 <= k2 <= 4 and 0 <= k3 <= 4
    post: _
    """
    # p: what happens just before the call: 0 nothing, 1 an `ev` event with n = 2, 2 the state is written to '1'
    # k_i: 0 write a='1', 1 write a='0', 2 fire ev n=1, 3 fire ev n=2, 4 cancel the waiting task
    from vlib.world import mkworld, SEC
    from custom_components.pyscript.state import State
    from custom_components.pyscript.event import Event
    name = P("cfg"); args, has_state, check_now, has_event, tmo, timekind = CFGS[name]
    n = P("k")
    ops = [(g1, k1), (g2, k2), (g3, k3)][:n]
    with notrace():
        w = mkworld(P("legacy"))
    try:
        with notrace():
            w.set_state("pyscript.a", "0")
            g = w.load("file.x", SRC.format(args=args), extra={"T": lambda: w.env.t, "SUM": summary})
            def baseline():
                live = [t for t in w.env.tasks if not t.done()] if not w.real else []
                return ({k: len(v) for k, v in State.notify.items() if v}, {k: len(v) for k, v in Event.notify.items()}, dict(w.hass.bus.async_listeners()), len(live))
            base = baseline()
        a = "0"
        if p == 1: w.fire("ev", {"n": 2})
        if p == 2: w.set_state("pyscript.a", "1"); a = "1"
        w.fire("go", {})
        # oracle state
        exp = None                                  # (time, summary) of the return, or ("cancelled",)
        if has_state and check_now and a == "1": exp = (0, summary({"trigger_type": "state"}))
        elif tmo == 0: exp = (0, summary({"trigger_type": "timeout"}))
        elif timekind == "past": exp = (0, summary({"trigger_type": "none"}))
        t = 0; after_cancel = None
        for (gap, kind) in ops:
            t = t + gap * 1000
            if tmo and t == tmo: return verdict(True, False)          # tie with the timeout: outside the property
            if timekind == "in2s" and t == 2 * SEC: return verdict(True, False)
            if exp is None and tmo and t > tmo: exp = (tmo, summary({"trigger_type": "timeout"}))
            if exp is None and timekind == "in2s" and t > 2 * SEC: exp = (2 * SEC, summary({"trigger_type": "time"}))
            w.advance(t)
            if kind == 0 or kind == 1:
                new = "1" if kind == 0 else "0"
                if new != a:
                    old = a; a = new
                    w.set_state("pyscript.a", new)
                    if exp is None and has_state and new == "1":
                        exp = (t, summary({"trigger_type": "state", "var_name": "pyscript.a", "value": "1", "old_value": old}))
            elif kind in (2, 3):
                nval = 1 if kind == 2 else 2
                w.fire("ev", {"n": nval})
                if exp is None and has_event:
                    if has_event == "nofilter" or (has_event is True and nval > 1):
                        exp = (t, summary({"trigger_type": "event", "event_type": "ev", "n": nval}))
                    elif has_event == "raise" and nval == 1:
                        exp = (t, "exc")
                    elif has_event == "raise" and nval == 2:
                        exp = (t, summary({"trigger_type": "event", "event_type": "ev", "n": nval}))
            else:
                was_pending = exp is None
                if exp is None: exp = ("cancelled",)
                w.fire("kill", {})
                if was_pending and after_cancel is None:
                    after_cancel = baseline()           # released at the moment of the cancellation, not at some later timer
        if exp is None and tmo: exp = (tmo, summary({"trigger_type": "timeout"}))
        if exp is None and timekind == "in2s": exp = (2 * SEC, summary({"trigger_type": "time"}))
        w.advance(t + 5 * SEC)
        res = [tuple(r) for r in g.global_sym_table["res"]]
        after = baseline()
        pending = exp is None
        if pending:
            # still waiting (no timeout given): cancel now; afterwards nothing may be left either
            w.fire("kill", {}); w.advance(t + 6 * SEC)
            after = baseline()
    finally:
        w.close()
    want = [] if (pending or exp == ("cancelled",)) else [exp]
    part = P("part")
    if part == "result":
        ok = res == want
    elif part == "cleanup":
        ok = after == base and (after_cancel is None or after_cancel == base)
    else:
        ok = res == want and after == base and (after_cancel is None or after_cancel == base)
    if not symbolic_mode():
        detail(cfg=name, pre=p, ops=ops, result=res, expected=want, tables_before=base, tables_after=after, tables_after_cancel=after_cancel)
    return verdict(ok, len(want) > 0)


def classify_cancel_leak(args, detail_, info):
    """accept only: correct result, but listeners/subscriptions/timers left behind, on a history that cancels the waiting task"""
    ops = detail_.get("ops", [])
    cancelled = any(o[1] == 4 for o in ops) or detail_.get("expected") == []
    return detail_.get("result") == detail_.get("expected") and detail_.get("tables_before") != detail_.get("tables_after") and cancelled


def obligations(tier):
    o = []
    k = 2 if tier == "quick" else 3
    for name in CFGS:
        for legacy in (False, True):
            o.append(Obl(f"C15.{name}.{'legacy' if legacy else 'default'}", __name__, "wait", {"cfg": name, "legacy": legacy, "k": k, "part": "all"},
                         timeout=900 if tier == "quick" else 3000,
                         desc=f"task.wait_until({CFGS[name][0]}): returns exactly at the first qualifying occurrence after the call (or at once when state_check_now applies, "
                              "'timeout' after the timeout, 'none' without a future time) with the dictionary a decorator would pass; and on every exit path - return, "
                              "exception in a condition, cancellation - State/Event notify tables, bus listeners and pending timers are as before the call",
                         sym=f"what happens before the call (nothing / event / state already true); {k} later operations with gaps in [1 ms, 4 s]: write '1' / write '0' / "
                             "event n=1 / event n=2 / cancel the waiting task - all symbolic",
                         real_loop=True, twin=(name in ("all", "time")),
                         encodes=(("trigger.TrigTime.wait_until",) if legacy else ("decorator.DecoratorRegistry.wait_until", "decorator.WaitUntilDecoratorManager.dispatch"))))
    return o
