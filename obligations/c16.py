"""C16 - state variables read and write Home Assistant state faithfully.

Full stack: script fragments (the real interpreter routing dotted names to State.get/set/setattr/delete) run against the stub state machine.
One step from an ARBITRARY model state: whether the entity exists, its value, which attributes it has (and their values) are symbolic, as are
the operation and every argument's presence; a dictionary model of the state machine is the oracle.  Plus snapshot immutability and the
precedence of Python variables and service names over state names.
"""
from vlib import ctx
from vlib.ctx import P, verdict, detail
from vlib.obl import Obl
from vlib.base import symbolic_mode, notrace

LEVEL = "model_checking"
EXPLANATION = ("one-step symbolic execution of State.get/set/setattr/delete/getattr/exist/names and the interpreter's dotted-name routing from an arbitrary model state "
               "(existence, value, attribute presence/values symbolic) against a dictionary model; snapshot immutability over a following external change")
BOUNDS = {"quick": "1 entity + 1 other; value in 3 strings; attributes a1 (int in [-2,2] or absent) and a2 (list/None/absent); 17 operations with symbolic argument presence",
          "thorough": "same, attribute a1 in [-20,20]"}
OUTSIDE = "state.persist and restore; Home Assistant's attribute validation and timestamps (the model stores what it is given); entities beyond the two used"
ASSUMPTIONS = ["stub state machine = dict model with HA's drop of no-change writes; real StateVal objects are built from real homeassistant.core.State instances"]

VALS = ["on", "off", "7"]
OPS = {
    # name: script fragment; r = observed result
    "read": "r = pyscript.x",
    "read_attr": "r = pyscript.x.a1",
    "read_attr2": "r = pyscript.x.a2",
    "read_missing_attr": "r = pyscript.x.nope",
    "read_virtual": "r = (pyscript.x.entity_id, pyscript.x.last_changed is not None, pyscript.x.last_updated is not None, pyscript.x.last_reported is not None)",
    "state_get": "r = state.get('pyscript.x')",
    "state_get_attr": "r = state.get('pyscript.x.a1')",
    "assign": "pyscript.x = NV\nr = None",
    "assign_int": "pyscript.x = 5\nr = None",
    "assign_attr": "pyscript.x.a1 = NA\nr = None",
    "assign_new_attr": "pyscript.x.a3 = 'n'\nr = None",
    "setattr": "state.setattr('pyscript.x.a1', NA)\nr = None",
    "set_value": "state.set('pyscript.x', NV)\nr = None",
    "set_value_kw": "state.set('pyscript.x', NV, a1=NA, a4=True)\nr = None",
    "set_new_attributes": "state.set('pyscript.x', NV, new_attributes=NEWATTR)\nr = None",
    "set_new_attributes_kw": "state.set('pyscript.x', NV, new_attributes=NEWATTR, a4=True)\nr = None",
    "set_attrs_only": "state.set('pyscript.x', new_attributes=NEWATTR)\nr = None",
    "set_kw_only": "state.set('pyscript.x', a1=NA)\nr = None",
    "set_snapshot": "s = pyscript.y\nstate.set('pyscript.x', s)\nr = None",
    "delete": "del pyscript.x\nr = None",
    "state_delete": "state.delete('pyscript.x')\nr = None",
    "delete_attr": "del pyscript.x.a1\nr = None",
    "exist": "r = (state.exist('pyscript.x'), state.exist('pyscript.x.a1'), state.exist('pyscript.x.nope'), state.exist('pyscript.zz'))",
    "names": "r = sorted(state.names('pyscript'))",
    "getattr": "r = state.getattr('pyscript.x')",
    "getattr_snapshot": "s = pyscript.x\nd = state.getattr(s)\nd['a1'] = 99\nr = (state.getattr(s), s.entity_id)",
}
RUN = "try:\n    {body}\nexcept NameError as e:\n    r = 'NameError'\nexcept AttributeError as e:\n    r = 'AttributeError'\n"


def sv(v):
    """comparable view of a StateVal / value"""
    if v is None or isinstance(v, (bool, int, float, tuple, dict, list)) and not isinstance(v, str):
        return v
    if hasattr(v, "__dict__") and isinstance(v, str):
        d = {k: x for k, x in vars(v).items() if k not in ("entity_id", "last_changed", "last_updated", "last_reported")}
        return ("StateVal", str(v), d)
    return v


def step(exists: bool, vi: int, has1: bool, a1: int, a2k: int, nvi: int, na: int, newk: int) -> bool:
    """
    pre: 0 <= vi <= 2 and -P("abound") <= a1 <= P("abound") and 0 <= a2k <= 2 and 0 <= nvi <= 2 and -P("abound") <= na <= P("abound") and 0 <= newk <= 2
    post: _
    """
    from vlib.world import mkworld
    op = P("op")
    # model state of pyscript.x: None or (value, attrs)
    attrs = {}
    if has1: attrs["a1"] = a1
    if a2k == 1: attrs["a2"] = [1, 2]
    elif a2k == 2: attrs["a2"] = None
    model = {"pyscript.y": ("on", {"a1": 1, "b": "yy"})}
    if exists: model["pyscript.x"] = (VALS[vi], dict(attrs))
    NV = VALS[nvi]; NA = na
    NEWATTR = [{}, {"a1": na}, {"z": "zz", "a2": None}][newk]
    with notrace():
        w = mkworld(False)
    try:
        with notrace():
            for eid, (v, at) in model.items():
                w.set_state(eid, v, dict(at))
            body = OPS[op].replace("\n", "\n    ")
            src = RUN.format(body=body)
        g = w.load("file.x", src, extra={"NV": NV, "NA": NA, "NEWATTR": dict(NEWATTR)})
        r = g.global_sym_table.get("r")
        after = {e: (s.state, dict(s.attributes)) for e, s in w.hass.states.d.items()}
    finally:
        w.close()
    # ---- oracle
    m = {k: (v, dict(a)) for k, (v, a) in model.items()}
    x = m.get("pyscript.x")
    exp_r = None
    def need():
        return x is not None
    if op in ("read", "state_get"):
        exp_r = ("StateVal", x[0], x[1]) if x else "NameError"
    elif op in ("read_attr", "state_get_attr"):
        exp_r = "NameError" if not x else (x[1]["a1"] if "a1" in x[1] else "AttributeError")
    elif op == "read_attr2":
        exp_r = "NameError" if not x else (x[1]["a2"] if "a2" in x[1] else "AttributeError")
    elif op == "read_missing_attr":
        exp_r = "NameError" if not x else "AttributeError"
    elif op == "read_virtual":
        exp_r = ("pyscript.x", True, True, True) if x else "NameError"
    elif op == "assign" or op == "set_value":
        m["pyscript.x"] = (NV, dict(x[1]) if x else {})
    elif op == "assign_int":
        m["pyscript.x"] = ("5", dict(x[1]) if x else {})
    elif op in ("assign_attr", "setattr"):
        if x: m["pyscript.x"] = (x[0], {**x[1], "a1": NA})
        else: exp_r = "NameError"
    elif op == "assign_new_attr":
        if x: m["pyscript.x"] = (x[0], {**x[1], "a3": "n"})
        else: exp_r = "NameError"
    elif op == "set_value_kw":
        m["pyscript.x"] = (NV, {**(x[1] if x else {}), "a1": NA, "a4": True})
    elif op == "set_new_attributes":
        m["pyscript.x"] = (NV, dict(NEWATTR))
    elif op == "set_new_attributes_kw":
        m["pyscript.x"] = (NV, {**NEWATTR, "a4": True})
    elif op == "set_attrs_only":
        m["pyscript.x"] = (x[0] if x else None, dict(NEWATTR))          # an omitted value is kept
    elif op == "set_kw_only":
        m["pyscript.x"] = (x[0] if x else None, {**(x[1] if x else {}), "a1": NA})
    elif op == "set_snapshot":
        m["pyscript.x"] = ("on", {"a1": 1, "b": "yy"})
    elif op in ("delete", "state_delete"):
        if x: del m["pyscript.x"]
        else: exp_r = "NameError"
    elif op == "delete_attr":
        if not x: exp_r = "NameError"
        elif "a1" not in x[1]: exp_r = "AttributeError"
        else:
            a = dict(x[1]); del a["a1"]; m["pyscript.x"] = (x[0], a)
    elif op == "exist":
        exp_r = (bool(x), bool(x) and "a1" in x[1], False, False)
    elif op == "names":
        exp_r = sorted(m)
    elif op == "getattr":
        exp_r = dict(x[1]) if x else None
    elif op == "getattr_snapshot":
        exp_r = (dict(x[1]), "pyscript.x") if x else "NameError"
    # the stub stores str(value); a None value (nothing to keep) is stored by Home Assistant as 'None'
    exp_after = {k: (str(v), a) for k, (v, a) in m.items()}
    got_r = sv(r) if not isinstance(r, tuple) else tuple(sv(i) for i in r)
    ok = got_r == exp_r and after == exp_after
    if not symbolic_mode():
        detail(op=op, before=model, result=got_r, expected_result=exp_r, after=after, expected_after=exp_after)
    return verdict(ok, exists)


SNAP = '''
s = pyscript.x
before = (str(s), s.a1, state.getattr(s))
'''
SNAP2 = '''
after = (str(s), s.a1, state.getattr(s))
now = (str(pyscript.x), pyscript.x.a1)
'''


def snapshot(vi: int, a1: int, nvi: int, na: int, how: int) -> bool:
    """
    pre: 0 <= vi <= 2 and 0 <= nvi <= 2 and -3 <= a1 <= 3 and -3 <= na <= 3 and 0 <= how <= 2
    post: _
    """
    # a captured snapshot never changes, whatever happens to the entity afterwards (external write, script write, deletion + re-creation)
    from vlib.world import mkworld
    from vlib.base import AstEval, Function
    with notrace():
        w = mkworld(False)
    try:
        with notrace():
            w.set_state("pyscript.x", VALS[vi], {"a1": a1})
        g = w.load("file.x", SNAP)
        if how == 0:
            w.set_state("pyscript.x", VALS[nvi], {"a1": na})
        elif how == 1:
            a = AstEval("file.x", g); Function.install_ast_funcs(a); a.parse("pyscript.x = NV\npyscript.x.a1 = NA\n")
            g.global_sym_table.update({"NV": VALS[nvi], "NA": na}); w.run(a.eval())
        else:
            w.do(lambda: w.hass.states.async_remove("pyscript.x")); w.settle(); w.set_state("pyscript.x", VALS[nvi], {"a1": na})
        a = AstEval("file.x", g); Function.install_ast_funcs(a); a.parse(SNAP2); w.run(a.eval())
        before = g.global_sym_table["before"]; after = g.global_sym_table["after"]; now = g.global_sym_table["now"]
    finally:
        w.close()
    ok = tuple(before) == (VALS[vi], a1, {"a1": a1}) and tuple(after) == tuple(before) and tuple(now) == (VALS[nvi], na)
    if not symbolic_mode():
        detail(before=before, after=after, now=now)
    return verdict(ok, True)


PREC = '''
def f():
    pyscript = C()
    return pyscript.x
class C:
    x = "local-object"
r_local = f()
r_service = test.svc
r_state = test.other
'''


def precedence(has_global: bool, has_service: bool) -> bool:
    """
    post: _
    """
    # a local/global Python variable named like the first component shadows the state; an existing service d.s shadows state d.s
    from vlib.world import mkworld
    with notrace():
        w = mkworld(False)
    try:
        with notrace():
            w.set_state("pyscript.x", "state-x"); w.set_state("test.svc", "state-svc"); w.set_state("test.other", "state-other")
            async def svc(call): return None
            if has_service: w.hass.services.async_register("test", "svc", svc)
        src = PREC + ("class G:\n    x = 'global-object'\npyscript = G()\nr_global = pyscript.x\n" if has_global else "r_global = pyscript.x\n")
        g = w.load("file.x", src)
        t = g.global_sym_table
        got = (t.get("r_local"), str(t.get("r_global")), "callable" if callable(t.get("r_service")) else str(t.get("r_service")), str(t.get("r_state")))
    finally:
        w.close()
    exp = ("local-object", "global-object" if has_global else "state-x", "callable" if has_service else "state-svc", "state-other")
    if not symbolic_mode():
        detail(got=got, expected=exp)
    return verdict(got == exp, True)


def obligations(tier):
    o = []
    ab = 2 if tier == "quick" else 20
    for op in OPS:
        o.append(Obl(f"C16.step.{op}", __name__, "step", {"op": op, "abound": ab}, timeout=900,
                     desc=f"`{OPS[op].splitlines()[0]}` from an arbitrary state of the entity: result / exception type and the state machine afterwards equal the dictionary model "
                          "(values become strings, attributes kept / merged / replaced / removed as documented, omitted value kept, missing entity -> NameError, missing attribute -> AttributeError)",
                     sym="entity exists?, value index (3), attribute a1 present? and its value, attribute a2 in {absent, list, None}, new value, new attribute value, new_attributes in 3 shapes - symbolic",
                     twin=(op in ("read", "assign_attr", "set_new_attributes")), encodes=("state.State.get",) if op.startswith("read") else ()))
    o.append(Obl("C16.snapshot", __name__, "snapshot", {}, timeout=900, desc="a captured value (string + attributes + state.getattr of it) never changes after an external write, a script write or delete/re-create",
                 sym="old/new value index, old/new attribute value, kind of later change - symbolic", encodes=("state.State.getattr",)))
    o.append(Obl("C16.precedence", __name__, "precedence", {}, timeout=300, desc="local and global Python variables shadow state names; an existing service name shadows a state of the same name",
                 sym="global variable present?, service registered? - symbolic", twin=False))
    return o
