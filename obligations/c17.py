"""C17 - import and builtin restrictions hold for every import form.

The module NAME is the solver variable (a free string up to a length bound); the statement is
built as an ast node and handed to the real AstEval.ast_import / ast_importfrom, with the real
GlobalContext.module_import running against an in-memory file universe.
"""
import ast, builtins, logging, sys, types

from vlib import ctx
from vlib.ctx import P, verdict, detail
from vlib.obl import Obl
from vlib.base import run, realize, eqset, symbolic_mode, HASS, GlobalContext, GlobalContextMgr, AstEval, Function
from vlib.memfs import MemFS
from custom_components.pyscript import eval as ev, global_ctx as gc

LEVEL = "model_checking"
EXPLANATION = ("symbolic execution (CrossHair/z3) of the real ast_import/ast_importfrom/module_import/ast_name with the module name as a "
               "free symbolic string; every path's postcondition decided by the solver")
BOUNDS = {"quick": "module name: every string of length <= 7 (<= 5 with allow_all_imports); builtin name: index into dir(builtins)+extras",
          "thorough": "module name: every string of length <= 11"}
OUTSIDE = "names longer than the bound; what an allowed module lets a script reach; attribute-based escapes"
ASSUMPTIONS = [
    "os.path.isfile/open replaced by an in-memory file universe (modules/foo.py, modules/math.py, apps/bar/__init__.py); POSIX semantics assumed",
    "importlib.import_module / sys.modules replaced by a recorder when allow_all_imports is set (CPython's import system is not encoded)",
    "ALLOWED_IMPORTS and GlobalContextMgr.contexts wrapped in equality-disjunction containers (hashing would realise the symbolic string)",
]

REAL_ALLOWED = set(ev.ALLOWED_IMPORTS)
PYS_DIR = "/cfg/pyscript"
FILES = {
    PYS_DIR + "/modules/foo.py": "x = 1\n",
    PYS_DIR + "/modules/math.py": "pi = 3\n",          # shadows an allow-listed name
    PYS_DIR + "/modules/os.py": "getcwd = 7\n",        # shadows a forbidden name: pyscript module wins (documented lookup order)
    PYS_DIR + "/apps/bar/__init__.py": "y = 2\n",
}
PYS_MODULES = {"foo", "math", "os"}


class EqDict:
    """dict replacement with equality-disjunction lookup"""
    def __init__(self): self.k = []; self.v = []
    def _i(self, key):
        for i, k in enumerate(self.k):
            if key == k: return i
        return -1
    def get(self, key, d=None):
        i = self._i(key); return self.v[i] if i >= 0 else d
    def __contains__(self, key): return self._i(key) >= 0
    def __getitem__(self, key):
        i = self._i(key)
        if i < 0: raise KeyError(key)
        return self.v[i]
    def __setitem__(self, key, val):
        i = self._i(key)
        if i >= 0: self.v[i] = val
        else: self.k.append(key); self.v.append(val)
    def __delitem__(self, key):
        i = self._i(key)
        if i < 0: raise KeyError(key)
        del self.k[i]; del self.v[i]
    def __iter__(self): return iter(list(self.k))
    def items(self): return list(zip(self.k, self.v))
    def values(self): return list(self.v)
    def keys(self): return list(self.k)
    def __len__(self): return len(self.k)
    def clear(self): self.k.clear(); self.v.clear()
    def __bool__(self): return True
    def copy(self):
        c = EqDict(); c.k = list(self.k); c.v = list(self.v); return c
    def update(self, other):
        for k, v in (other.items() if hasattr(other, "items") else other): self[k] = v
    def pop(self, key, *d):
        i = self._i(key)
        if i < 0:
            if d: return d[0]
            raise KeyError(key)
        v = self.v[i]; del self.k[i]; del self.v[i]; return v
    def __eq__(self, o):
        return isinstance(o, (dict, EqDict)) and len(o) == len(self) and all(k in o and o[k] == v for k, v in self.items())


class _Env:
    """installs the environment shims around one call; restores in close()"""
    def __init__(self, allow_all):
        self.saved = []
        fs = MemFS(FILES)
        def patch(obj, name, val):
            self.saved.append((obj, name, obj.__dict__.get(name, _MISSING) if isinstance(obj, types.ModuleType) else getattr(obj, name, _MISSING)))
            setattr(obj, name, val)
        self.imported = []
        class CE: data = {"allow_all_imports": allow_all}
        class Cfg:
            def path(self, p=""): return PYS_DIR if p == "pyscript" else "/cfg/" + p
        hass = types.SimpleNamespace(data={"pyscript": {"config_entry": CE()}}, config=Cfg(), states=HASS.states, services=HASS.services)
        env = self
        async def executor(f, *a):
            if f is ev.importlib.import_module:
                env.imported.append(a[0])
                m = types.ModuleType("fake"); m.attr = 1; m.x = 1
                return m
            return f(*a)
        hass.async_add_executor_job = executor
        patch(Function, "hass", hass)
        patch(gc, "os", fs.os_shim()); patch(gc, "open", fs.open)
        patch(gc, "ModuleType", lambda n: types.ModuleType(realize(n)))   # C constructor rejects a symbolic str
        patch(ev, "ALLOWED_IMPORTS", eqset(REAL_ALLOWED))
        mk = EqDict if symbolic_mode() else dict     # plain replay runs on the real containers
        patch(ev, "sys", types.SimpleNamespace(modules=mk(), exc_info=sys.exc_info))
        patch(GlobalContextMgr, "contexts", mk())
        self.gctx = GlobalContext("file.t", global_sym_table=(EqDict() if symbolic_mode() else {"__verif__": 0}), manager=GlobalContextMgr)   # symbolic names become keys
        self.g = self.gctx.global_sym_table
        self.g.pop("__verif__", None)
        self.a = AstEval("file.t", global_ctx=self.gctx)
        self.a.config_entry = CE()
    def close(self):
        for obj, name, val in reversed(self.saved):
            if val is _MISSING:
                try: delattr(obj, name)
                except AttributeError: pass
            else: setattr(obj, name, val)

_MISSING = object()


def _is(name, options):
    r = False
    for o in sorted(options):
        if name == o: r = True
    return r


def imp_import(name: str) -> bool:
    """
    pre: len(name) == P("len")
    post: _
    """
    asname_used = P("asname"); allow_all = P("allow_all")
    e = _Env(allow_all)
    try:
        node = ast.Import(names=[ast.alias(name=name, asname="zz" if asname_used else None)])
        try:
            run(e.a.ast_import(node)); exc = None
        except Exception as x:
            exc = type(x)
        g = e.g; imported = e.imported
        bound = "zz" if asname_used else name
    finally:
        e.close()
    is_pys = _is(name, PYS_MODULES)
    allowed = _is(name, REAL_ALLOWED)
    detail(name=name, exc=str(exc), bound=sorted(g), imported=imported)
    if is_pys:
        # a pyscript module of that name is found first (documented lookup order), never the host's module
        ok = exc is None and len(g) == 1 and isinstance(g.get(bound), types.ModuleType) and imported == [] and g[bound].__name__ == name
        return verdict(ok, True)
    if not allow_all and not allowed:
        return verdict(exc is ModuleNotFoundError and len(g) == 0 and imported == [], False)
    ok = exc is None and len(g) == 1 and imported == [name] and bound in g
    return verdict(ok, True)


def imp_from(name: str) -> bool:
    """
    pre: len(name) == P("len")
    post: _
    """
    star = P("star"); asname_used = P("asname"); allow_all = P("allow_all")
    e = _Env(allow_all)
    try:
        node = ast.ImportFrom(module=name, names=[ast.alias(name="*" if star else "x", asname="zz" if (asname_used and not star) else None)], level=0)
        try:
            run(e.a.ast_importfrom(node)); exc = None
        except Exception as x:
            exc = type(x)
        g = e.g; imported = e.imported
    finally:
        e.close()
    detail(name=name, exc=str(exc), bound=sorted(g), imported=imported)
    is_stub = name == "stubs" or name.startswith("stubs.")
    if is_stub:
        if asname_used and not star:
            return verdict(exc is ModuleNotFoundError and len(g) == 0, False)
        return verdict(exc is None and len(g) == 0 and imported == [], False)
    if _is(name, {"foo"}):
        ok = exc is None and imported == [] and (g == {"x": 1} if (star or not asname_used) else g == {"zz": 1})
        return verdict(ok, True)
    if _is(name, {"math", "os"}):
        # pyscript's own modules/math.py, modules/os.py: found first; `x` does not exist in them
        if star:
            return verdict(exc is None and imported == [] and len(g) == 1, True)
        return verdict(exc is AttributeError and len(g) == 0 and imported == [], True)
    if not allow_all and not _is(name, REAL_ALLOWED):
        return verdict(exc is ModuleNotFoundError and len(g) == 0 and imported == [], False)
    if star:
        return verdict(exc is None and imported == [name] and sorted(g) == ["attr", "x"], True)
    return verdict(exc is None and imported == [name] and sorted(g) == (["zz"] if asname_used else ["x"]), True)


# ---- source-text forms through the interpreter, exec() and eval(): names are an enumerated list
TEXT_NAMES = ["os", "subprocess", "sys", "socket", "importlib", "builtins", "os.path", "mathx", "jso", "json.tool", "homeassistant.core",
              "homeassistant", "math", "json", "homeassistant.const", "re", "foo", "stubs", "stubs.x"]
FORMS = ["import {n}", "import {n} as q", "from {n} import x", "from {n} import *", "exec('import {n}')", "exec('from {n} import *')",
         "eval(\"exec('import {n} as q')\")", "def f():\n    import {n}\nf()", "def f():\n    from {n} import x\nf()"]


def imp_text(ni: int, fi: int) -> bool:
    """
    pre: 0 <= ni < len(TEXT_NAMES) and 0 <= fi < len(FORMS)
    post: _
    """
    name = TEXT_NAMES[ni]; src = FORMS[fi].format(n=name)
    e = _Env(False)
    try:
        e.a.parse(src)
        try:
            run(e.a.eval()); exc = None
        except Exception as x:
            exc = type(x)
        g = {k: v for k, v in e.g.items() if k != "f"}; imported = e.imported
    finally:
        e.close()
    detail(src=src, exc=str(exc), bound=sorted(g), imported=imported)
    frm = "from" in FORMS[fi]
    if frm and (name == "stubs" or name.startswith("stubs.")):
        return verdict(exc is None and len(g) == 0, False)
    if name in ("foo", "math", "os"):
        return verdict(imported == [], True)       # pyscript module path: host module never touched
    if name not in REAL_ALLOWED:
        return verdict(exc is ModuleNotFoundError and len(g) == 0 and imported == [], False)
    return verdict(exc is None and imported == [name], True)


# ---- builtins
EXTRA = ["nosuchname", "pyscript_x", "open_"]
NAMES = [n for n in sorted(dir(builtins)) if n not in ("__debug__", "None", "True", "False")] + EXTRA
FORBIDDEN = {"open", "compile", "input", "breakpoint", "memoryview"}
BFORMS = [
    "r = {n}",
    "def f():\n    return {n}\nr = f()",
    "def f():\n    global {n}\n    return {n}\nr = f()",
    "class C:\n    v = {n}\nr = C.v",
    "r = [{n} for _ in [0]][0]",
    "def f():\n    def g():\n        return {n}\n    return g()\nr = f()",
    "r = eval('{n}')",
    "def f(x={n}):\n    return x\nr = f()",
    "async def f():\n    return {n}\nr = f()",
]


def builtin_lookup(i: int, fi: int) -> bool:
    """
    pre: 0 <= i < len(NAMES) and 0 <= fi < len(BFORMS)
    post: _
    """
    name = NAMES[i]; src = BFORMS[fi].format(n=name)
    e = _Env(False)
    try:
        Function.install_ast_funcs(e.a)
        e.a.parse(src)
        try:
            run(e.a.eval()); exc = None
        except Exception as x:
            exc = type(x)
        val = e.g.get("r", _MISSING)
    finally:
        e.close()
    detail(src=src, val=repr(val)[:80], exc=str(exc))
    real = getattr(builtins, name, _MISSING)
    if name in FORBIDDEN or name.startswith("_") or real is _MISSING:
        # never the real object; (a NameError, or pyscript's unresolved-name placeholder, is what the script sees)
        return verdict(real is _MISSING or val is not real, False)
    if fi == 2 and exc is NameError:
        # `global NAME` + read of a builtin raises NameError under pyscript (CPython falls back to builtins): a name-resolution
        # deviation that belongs to C03; C17 only demands that it never yields a forbidden object
        return verdict(True, False)
    if name == "print":
        return verdict(exc is None and val is not builtins.print and callable(val), True)
    if name in ev.BUILTIN_AST_FUNCS_FACTORY:
        return verdict(exc is None and callable(val), True)          # pyscript's own eval/exec/globals/locals/...
    return verdict(exc is None and _same(val, real), True)


def _same(a, b):
    # site's printer objects (credits, copyright, exit ...) are plain instances that CrossHair may copy when they pass through
    # type(); everything else (functions, classes, singletons) must be the identical object
    if a is b:
        return True
    return type(a) is type(b) and type(a).__module__ == "_sitebuiltins" and repr(a) == repr(b)


def print_to_logger(ni: int) -> bool:
    """
    pre: 0 <= ni < 3
    post: _
    """
    src = ["print('hello 1')", "log.info('hello 1')", "log.warning('hello 1')"][ni]
    e = _Env(False)
    recs = []
    class H(logging.Handler):
        def emit(self, r): recs.append((r.name, r.levelname, r.getMessage()))
    h = H(); lg = logging.getLogger("custom_components.pyscript.file.t"); lg.addHandler(h); old = lg.level; lg.setLevel(logging.DEBUG)
    try:
        Function.install_ast_funcs(e.a)
        e.a.parse(src); run(e.a.eval())
    finally:
        lg.removeHandler(h); lg.setLevel(old); e.close()
    detail(src=src, records=recs)
    return verdict(recs == [("custom_components.pyscript.file.t", ["DEBUG", "INFO", "WARNING"][ni], "hello 1")], True)


def obligations(tier):
    q = 7 if tier == "quick" else 11
    o = []
    for L in range(0, q + 1):
        for asname in (False, True):
            for allow_all in (False, True):
                if allow_all and L > 5:
                    continue        # allow_all_imports=True takes the same string path; the bound is lower there
                o.append(Obl(f"C17.import.len{L}.{'as' if asname else 'plain'}.{'all' if allow_all else 'restricted'}", __name__, "imp_import",
                    {"len": L, "asname": asname, "allow_all": allow_all}, timeout=90 + 60 * max(0, L - 5) ** 2, tier="quick" if L <= 7 else "thorough",
                    desc="`import NAME [as zz]`: NAME not literally allow-listed and not a pyscript module => ModuleNotFoundError and nothing bound (unless allow_all_imports); "
                         "pyscript modules win over host modules; allow-listed names bind exactly one name",
                    sym=f"NAME: every string of length {L} (free symbolic str)", twin=(L in (2, 4)),
                    encodes=("eval.AstEval.ast_import", "global_ctx.GlobalContext.module_import")))
                for star in (False, True):
                    if star and asname:
                        continue
                    o.append(Obl(f"C17.from.len{L}.{'star' if star else 'as' if asname else 'plain'}.{'all' if allow_all else 'restricted'}", __name__, "imp_from",
                        {"len": L, "star": star, "asname": asname, "allow_all": allow_all}, timeout=90 + 60 * max(0, L - 5) ** 2, tier="quick" if L <= 7 else "thorough",
                        desc="`from NAME import x|* [as zz]`: same rule; `from stubs[.x] import ...` ignored",
                        sym=f"NAME: every string of length {L} (free symbolic str)", twin=(L in (3, 4)),
                        encodes=("eval.AstEval.ast_importfrom", "global_ctx.GlobalContext.module_import")))
    o += [
        Obl("C17.text", __name__, "imp_text", {}, timeout=300, tier="quick",
            desc="import statements as source text, in functions and through exec()/eval(): forbidden names raise ModuleNotFoundError and bind nothing",
            sym=f"index into {len(TEXT_NAMES)} names x index into {len(FORMS)} statement forms (solver fork per index)",
            encodes=("eval.AstEval.aeval", "eval.AstEval.parse")),
        Obl("C17.builtins", __name__, "builtin_lookup", {}, timeout=900, tier="quick",
            desc="a plain name read at module level, in a function, as a declared global, in a class body, comprehension, nested function, eval(), "
                 "default value or async function never yields open/compile/input/breakpoint/memoryview/_-prefixed builtins nor the real print; every other builtin is returned unchanged",
            sym=f"index into dir(builtins) + {EXTRA} ({len(NAMES)} names) x index into {len(BFORMS)} lookup contexts", encodes=("eval.AstEval.ast_name",)),
        Obl("C17.print", __name__, "print_to_logger", {}, timeout=60, tier="quick",
            desc="print/log.* write to the script's logger", sym="index into 3 forms", encodes=("eval.AstEval.ast_name",)),
    ]
    return o
