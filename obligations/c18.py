"""C18 - script errors are contained and attributed to the right file, function, line.

Attribution: differential symbolic execution - WHERE the fault is injected (one of N guarded positions) and WHICH exception kind are solver
variables; the (file, function, line) triples of EvalExceptionFormatter(exc).stack restricted to script frames must equal CPython's traceback.
Containment: full stack - a symbolic occurrence index makes a trigger expression / active expression / function body / done-callback / service
body raise: one error record on the script's logger, nothing propagates, the next occurrence is served.
"""
import logging, sys, traceback, types

from vlib import ctx
from vlib.ctx import P, verdict, detail
from vlib.obl import Obl
from vlib.base import run, symbolic_mode, notrace, HASS, GlobalContext, GlobalContextMgr, AstEval, Function
from vlib.memfs import MemFS

LEVEL = "translation_validation"
EXPLANATION = ("attribution: each generated program is validated against CPython's traceback for every fault position and exception kind (solver variables); "
               "containment: symbolic execution of the real catch-and-log sites through the full stack with a symbolic faulty occurrence")
BOUNDS = {"quick": "3 programs (single file call chain depth 4 with method + comprehension; cross-file chain through an imported module with a callback; chained cause / decorator variants), "
                   "10-12 fault positions x 7 exception kinds; containment: 3 occurrences, faulty index symbolic, 6 entry points x 2 subsystems",
          "thorough": "same programs, 4 occurrences"}
OUTSIDE = "column offsets and caret rendering; log message formatting beyond 'type and message present'; programs other than the templates"
ASSUMPTIONS = ["CPython's traceback.extract_tb is the reference; native helper frames (fault injector) are filtered by file name on both sides",
               "imported modules live in an in-memory file universe (pyscript side) / are pre-built module objects under the same file names (CPython side)"]

FILE = "/cfg/pyscript/t.py"
MFILE = "/cfg/pyscript/modules/vfm.py"


class MyErr(Exception):
    pass


def FAULT(kind):
    """native fault injector: its own frame is filtered out on both sides"""
    if kind == 0: raise ValueError("bad value")
    if kind == 1: return 1 // 0
    if kind == 2: return [][3]
    if kind == 3: return {}["zz"]
    if kind == 4: return None.attr
    if kind == 5: return int("x")
    raise MyErr("custom")


SINGLE = '''
class C:
    def __init__(self, k):
        self.k = k
        if k == 1:
            FAULT(F)

    def m(self, k):
        if k == 2:
            FAULT(F)
        return [FAULT(F) if (k == 3 and j == 1) else j for j in range(2)]

def g(k):
    x = 1
    if k == 4:
        FAULT(F)
    o = C(k)
    if k == 5:
        return x + None
    return o.m(k)

def f(k):
    if k == 6:
        FAULT(F)
    r = g(k)
    if k == 7:
        undefined_name
    for i in range(2):
        if k == 8 and i == 1:
            FAULT(F)
    return r

res = f(K)
if K == 9:
    FAULT(F)
'''
MOD = '''
def h(k, cb):
    if k == 1:
        FAULT(F)
    v = inner(k)
    if k == 3:
        return cb(k)
    return v

def inner(k):
    if k == 2:
        FAULT(F)
    return [k]
'''
CROSS = '''
import vfm

def cb(k):
    if k == 3:
        FAULT(F)
    return k

def top(k):
    if k == 0:
        FAULT(F)
    r = vfm.h(k, cb)
    if k == 4:
        FAULT(F)
    return r

res = top(K)
'''
CAUSE = '''
def g(k):
    try:
        FAULT(F)
    except Exception as e:
        if k == 1:
            raise KeyError("chained") from e
        if k == 2:
            raise KeyError("context")
        raise

def f(k):
    return g(k)

res = f(K)
'''
DECO = '''
def deco(fn):
    def wrap(k):
        if k == 1:
            FAULT(F)
        return fn(k)
    return wrap

@deco
def f(k):
    if k == 2:
        FAULT(F)
    return k

res = f(K)
'''
PROGS = {"single": (SINGLE, 10), "cross": (CROSS, 5), "cause": (CAUSE, 3), "deco": (DECO, 3)}


def _split(src):
    lines = src.split("\n")
    i = max(n for n, l in enumerate(lines) if l.startswith("res = "))
    return "\n".join(lines[:i]) + "\n", "\n" * i + "\n".join(lines[i:])


def _script_frames(frames):
    # the module-level frame is named after the global context by pyscript ("file.t", "modules.vfm") and "<module>" by CPython
    return [(fs.filename, "<module>" if (fs.name in (None, "<module>") or "." in fs.name) else fs.name, fs.lineno) for fs in frames if fs.filename in (FILE, MFILE)]


def _pys(src, k, f):
    from custom_components.pyscript.eval import EvalExceptionFormatter
    from custom_components.pyscript import global_ctx as gc
    fs = MemFS({MFILE: MOD, FILE: src})
    saved = (gc.os, gc.__dict__.get("open"), Function.hass, dict(GlobalContextMgr.contexts))
    class Cfg:
        def path(self, p=""): return "/cfg/" + p
    hass = types.SimpleNamespace(data=HASS.data, config=Cfg(), states=HASS.states, services=HASS.services)
    async def ex(fn, *a): return fn(*a)
    hass.async_add_executor_job = ex
    gc.os = fs.os_shim(); gc.open = fs.open; Function.hass = hass
    GlobalContextMgr.contexts.clear()
    try:
        g = {"K": k, "F": f, "FAULT": FAULT}
        with notrace():
            gctx = GlobalContext("file.t", global_sym_table=g, manager=GlobalContextMgr)
            gctx.file_path = FILE
            a = AstEval("file.t", global_ctx=gctx)
            Function.install_ast_funcs(a)
            # two phases: definitions untraced (class/def statements have no symbolic input), then the run part - padded with blank
            # lines so that its line numbers are those of the whole file
            sdef, srun = _split(src)
            orig_init = GlobalContext.__init__
        def patched_init(self, name, global_sym_table=None, **kw):
            orig_init(self, name, global_sym_table=global_sym_table, **kw)
            if name.startswith("modules."):
                self.global_sym_table.update({"F": f, "FAULT": FAULT})
        GlobalContext.__init__ = patched_init
        try:
            try:
                with notrace():
                    a.parse(sdef, filename=FILE); run(a.eval())
                a.parse(srun, filename=FILE)
                run(a.eval()); return None
            except Exception as e:
                fmt = EvalExceptionFormatter(e)
                out = [type(e).__name__, str(e), _script_frames(fmt.stack)]
                c = fmt.chained_exc
                out.append(None if c is None else [type(c.exc).__name__, _script_frames(c.stack), fmt.chained_msg == traceback._cause_message])
                return out
        finally:
            GlobalContext.__init__ = orig_init
    finally:
        gc.os = saved[0]
        if saved[1] is None: gc.__dict__.pop("open", None)
        else: gc.open = saved[1]
        Function.hass = saved[2]
        GlobalContextMgr.contexts.clear(); GlobalContextMgr.contexts.update(saved[3])


def _cpy(src, k, f):
    m = types.ModuleType("vfm"); m.__dict__.update({"F": f, "FAULT": FAULT})
    exec(compile(MOD, MFILE, "exec"), m.__dict__)
    old = sys.modules.get("vfm"); sys.modules["vfm"] = m
    try:
        g = {"K": k, "F": f, "FAULT": FAULT}
        try:
            sdef, srun = _split(src)
            exec(compile(sdef, FILE, "exec"), g)
            exec(compile(srun, FILE, "exec"), g); return None
        except Exception as e:
            out = [type(e).__name__, str(e), _script_frames(traceback.extract_tb(e.__traceback__))]
            c = e.__cause__ or (None if e.__suppress_context__ else e.__context__)
            out.append(None if c is None else [type(c).__name__, _script_frames(traceback.extract_tb(c.__traceback__)), e.__cause__ is not None])
            return out
    finally:
        if old is None: sys.modules.pop("vfm", None)
        else: sys.modules["vfm"] = old


def attribution(k: int, f: int) -> bool:
    """
    pre: 0 <= k <= P("npos") and 0 <= f <= 6
    post: _
    """
    src = PROGS[P("prog")][0]
    part = P("part")
    x = _pys(src, k, f)
    y = _cpy(src, k, f)
    if x is None or y is None:
        ok = x is None and y is None
    elif part == "frames":
        ok = x[:3] == y[:3] and (x[3] is None) == (y[3] is None)
    else:
        ok = x == y
    import os
    if not symbolic_mode() or os.environ.get("VERIF_DEBUG"):
        detail(prog=P("prog"), k=k, kind=f, pyscript=x, cpython=y)
    return verdict(ok, x is not None)


def classify_any(args, detail_, info):
    return True


def classify_cause_name(args, detail_, info):
    """accept only: everything equal except the function NAME of the first frame of the chained cause"""
    x, y = detail_.get("pyscript"), detail_.get("cpython")
    if not x or not y or x[:3] != y[:3] or x[3] is None or y[3] is None: return False
    fx, fy = x[3][1], y[3][1]
    return x[3][0] == y[3][0] and len(fx) == len(fy) and all(a[0] == b[0] and a[2] == b[2] for a, b in zip(fx, fy)) and fx != fy


# ---------------------------------------------------------------------------------------------- containment
CSRC = '''
calls = []
cbs = []

def on_done(tag):
    global cbs
    cbs += [tag]
    if tag == BAD:
        raise ValueError("boom in callback %s" % tag)

@event_trigger("ev", "(1 // (n - BADEXPR)) * 0 == 0")
def f(**kw):
    global calls
    task.add_done_callback(task.current_task(), on_done, kw["n"])
    calls += [kw["n"]]
    if kw["n"] == BAD_BODY:
        raise KeyError("boom in body %s" % kw["n"])

@event_trigger("ev2")
@state_active("(1 // (int(pyscript.z) - BADACTIVE)) * 0 == 0")
def g(**kw):
    global calls
    calls += [("g", kw["n"])]

@service
def svc(n=0):
    global calls
    calls += [("svc", n)]
    if n == BAD_SVC:
        raise RuntimeError("boom in service %s" % n)
'''
OTHER = '''
ok_calls = []
@event_trigger("ev")
def other(**kw):
    global ok_calls
    ok_calls += [kw["n"]]
'''
ENTRY = ["body", "trigger_expr", "active_expr", "done_callback", "service", "none"]


def containment(bad: int) -> bool:
    """
    pre: 1 <= bad <= P("k")
    post: _
    """
    from vlib.world import mkworld, SEC
    entry = P("entry"); k = P("k")
    recs = []
    class H(logging.Handler):
        def emit(self, r):
            recs.append((r.name, r.levelname, r.getMessage()))
    h = H(); lg = logging.getLogger("custom_components.pyscript"); lg.addHandler(h)
    with notrace():
        w = mkworld(P("legacy"))
    try:
        with notrace():
            w.set_state("pyscript.z", "0")
            extra = {"BAD": bad if entry == "done_callback" else -1, "BAD_BODY": bad if entry == "body" else -1, "BADEXPR": bad if entry == "trigger_expr" else -100,
                     "BADACTIVE": bad if entry == "active_expr" else -100, "BAD_SVC": bad if entry == "service" else -1}
            g1 = w.load("file.x", CSRC, extra=extra)
            g2 = w.load("file.y", OTHER)
        propagated = []
        for n in range(1, k + 1):
            try:
                w.set_state("pyscript.z", str(n))
                w.fire("ev", {"n": n}); w.fire("ev2", {"n": n})
                t = w.call_service("pyscript", "svc", {"n": n}, blocking=True)
                if t.done() and t.exception() is not None: propagated.append(("svc", n, type(t.exception()).__name__))
            except Exception as e:
                propagated.append((n, type(e).__name__))
            w.advance(n * SEC)
        calls = list(g1.global_sym_table["calls"]); cbs = list(g1.global_sym_table["cbs"]); other = list(g2.global_sym_table["ok_calls"])
        # at quiescence pyscript's task registries hold no finished task (a fault must not skip the clean-up of its run)
        stale = [len([t for t in reg if t.done()]) for reg in (Function.our_tasks, Function.task2cb, Function.task2context, Function.unique_task2name)]
    finally:
        w.close(); lg.removeHandler(h)
    errs = [r for r in recs if r[1] == "ERROR"]
    nums = [c for c in calls if isinstance(c, int)]
    gs = [c[1] for c in calls if isinstance(c, tuple) and c[0] == "g"]
    svcs = [c[1] for c in calls if isinstance(c, tuple) and c[0] == "svc"]
    allk = list(range(1, k + 1))
    exp_nums = [n for n in allk if not (entry == "trigger_expr" and n == bad)]
    exp_g = [n for n in allk if not (entry == "active_expr" and n == bad)]
    ok = nums == exp_nums and gs == exp_g and svcs == allk and other == allk and sorted(cbs) == exp_nums and not propagated and stale == [0, 0, 0, 0]
    expect_msg = {"body": "boom in body", "trigger_expr": "ZeroDivisionError", "active_expr": "ZeroDivisionError", "done_callback": "boom in callback",
                  "service": "boom in service", "none": None}[entry]
    if expect_msg is None:
        ok = ok and errs == []
    else:
        mine = [r for r in errs if expect_msg in r[2]]
        ok = ok and len(mine) == 1 and len(errs) == 1 and mine[0][0].startswith("custom_components.pyscript.file.x")
    if not symbolic_mode():
        detail(entry=entry, bad=bad, calls=calls, cbs=cbs, other=other, errors=[(r[0], r[2][:160]) for r in errs], propagated=propagated, stale_registry_entries=stale)
    return verdict(ok, True)


def load_isolation(badfile: int) -> bool:
    """
    pre: 0 <= badfile <= 3
    post: _
    """
    # one of three files has a load-time fault (3 = none): the other files load, the faulty one does not, one error is logged
    from vlib.world import mkworld
    import custom_components.pyscript as pys
    srcs = ["x0 = 1\n@service\ndef s0():\n    pass\n", "x1 = 1\n@service\ndef s1():\n    pass\n", "x2 = 1\n@service\ndef s2():\n    pass\n"]
    files = {}
    for i, s in enumerate(srcs):
        files["/cfg/pyscript/f%d.py" % i] = s + ("y = 1 // 0\n" if i == badfile else "")
    recs = []
    class H(logging.Handler):
        def emit(self, r): recs.append((r.name, r.levelname, r.getMessage()))
    h = H(); lg = logging.getLogger("custom_components.pyscript"); lg.addHandler(h)
    try:
        w = mkworld(P("legacy"), files=files)
        try:
            w.fire("homeassistant_started", {})
            loaded = sorted(n for n in GlobalContextMgr.contexts)
            svcs = sorted(s for (d, s) in w.hass.services.reg if d == "pyscript" and s.startswith("s"))
        finally:
            w.close()
    finally:
        lg.removeHandler(h)
    exp = [i for i in range(3) if i != badfile]
    errs = [r for r in recs if r[1] == "ERROR"]
    ok = loaded == ["file.f%d" % i for i in exp] and svcs == ["s%d" % i for i in exp]
    ok = ok and ((badfile == 3 and not errs) or (badfile < 3 and any("ZeroDivisionError" in r[2] for r in errs)))
    if not symbolic_mode():
        detail(badfile=badfile, loaded=loaded, services=svcs, errors=[(r[0], r[2][:120]) for r in errs])
    return verdict(ok, True)


def count_programs(obls):
    return len({o.params.get("prog") for o in obls if "prog" in o.params}) or 1


def obligations(tier):
    o = []
    for prog, (src, npos) in PROGS.items():
        known = {"cause": "C18.cause_frame_name", "deco": "C18.decorator_frames"}.get(prog, "")
        if known:
            o.append(Obl(f"C18.attr.{prog}.frames", __name__, "attribution", {"prog": prog, "npos": npos, "part": "frames" if prog == "cause" else "all_but"}, timeout=600,
                         desc=f"program '{prog}': exception type, message and the (file, function, line) triples of the primary traceback equal CPython's", sym="fault position and kind symbolic",
                         twin=False) if prog == "cause" else None)
        o.append(Obl(f"C18.attr.{prog}", __name__, "attribution", {"prog": prog, "npos": npos, "part": "all"}, timeout=600,
                     desc=f"program '{prog}': exception type, message, (file, function, line) triples of script frames and the cause/context chain equal CPython's traceback for every fault position and kind",
                     sym=f"fault position K in [0,{npos}] (K = {npos}: no fault), exception kind F in [0,6] - symbolic", twin=(prog == "single"),
                     known=known, classifier={"cause": "classify_cause_name", "deco": "classify_any"}.get(prog, "")))
    o = [x for x in o if x is not None]
    k = 3 if tier == "quick" else 4
    for entry in ENTRY:
        for legacy in (False, True):
            o.append(Obl(f"C18.contain.{entry}.{'legacy' if legacy else 'default'}", __name__, "containment", {"entry": entry, "legacy": legacy, "k": k}, timeout=900,
                         desc=f"an exception raised in the {entry} at a symbolic occurrence is reported exactly once on the script's logger with type and message, never propagates "
                              "into Home Assistant, and the following occurrences of this and of other functions/files are served normally",
                         sym=f"{k} occurrences (event + second event + service call each); index of the faulty occurrence symbolic", real_loop=True, twin=(entry == "body"),
                         ))
    for legacy in (False, True):
        o.append(Obl(f"C18.load.{'legacy' if legacy else 'default'}", __name__, "load_isolation", {"legacy": legacy}, timeout=600,
                     desc="a load-time error in one of three files leaves that file unloaded, logs the error, and the other files load with their services",
                     sym="index of the faulty file (or none) symbolic", twin=False))
    return o
