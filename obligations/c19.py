"""C19 - Jupyter kernel: lossless ZMTP framing, authenticated requests, correlated replies.

Framing: frame LENGTHS and TCP fragment sizes are solver variables; the byte strings are abstract chunk lists
(vlib.vbytes) under CrossHair and real `bytes` in plain replay.  The real ZmqSocket.send*/recv*/read_bytes run unmodified.
Authentication: the signature frame is a free symbolic byte string; the real Kernel.shell_handler / deserialize_wire_msg /
send / msg_sign run with the real HMAC on concrete frames selected by solver-forked indices.
"""
import json, builtins, struct, asyncio

from vlib import ctx
from vlib.ctx import P, verdict, detail
from vlib.obl import Obl
from vlib.base import run, symbolic_mode, GlobalContext, GlobalContextMgr, AstEval, Function
from vlib import vbytes as vb
from custom_components.pyscript import jupyter_kernel as jk
from custom_components.pyscript.jupyter_kernel import ZmqSocket

LEVEL = "model_checking"
EXPLANATION = ("symbolic execution of the real ZmqSocket send/recv code over abstract byte strings whose lengths and fragmentation are "
               "solver variables; symbolic signature bytes through the real deserialize_wire_msg/shell_handler")
BOUNDS = {"quick": "1..3 frames, each length in [0, 10^6]; 3 symbolic TCP cut sizes; signature: every byte string of length <= 2 plus valid/altered variants; 8 request types x 5 cells",
          "thorough": "1..4 frames, 4 cuts; signature length <= 3; 2-cell sequences"}
OUTSIDE = "TCP/sockets, the ZMTP greeting, frames longer than 10^6 bytes (8-byte length form is crossed at 256), cryptographic strength of HMAC-SHA256, housekeeping/heartbeat tasks"
ASSUMPTIONS = [
    "byte strings are modelled as chunk lists (literal byte / big-endian int field / slice of an opaque payload) installed as module globals "
    "bytearray/pack/unpack/len of jupyter_kernel; validated against real bytes in preflight and every counterexample replayed on real bytes",
    "reader.read(n) returns between 1 and n bytes when data is available, b'' at EOF (asyncio StreamReader contract)",
    "jupyter_kernel._LOGGER replaced by a no-op logger (formatting symbolic frames would realise them)",
    "shell sockets / iopub sockets are recording stubs; asyncio.Queue is the harness VQueue; real hmac/sha256 used on concrete frames",
]
MAXLEN = 10**6


# ---------------------------------------------------------------------------------------------- framing
def blob(i, ln):
    return vb.VB([("blob", i, 0, ln)]) if symbolic_mode() else bytes([65 + i]) * ln


def blen(x):
    return x.vlen() if isinstance(x, vb.VB) else len(x)


def bsplit(x, k):
    return x.split(k) if isinstance(x, vb.VB) else (x[:k], x[k:])


def bnorm(x):
    return vb._tovb(x).norm() if symbolic_mode() else bytes(x)


class Reader:
    """stream reader delivering the written bytes in fragments: cut sizes from `cuts`, then whole requests"""
    def __init__(self, data, cuts, eof_at=None):
        self.rest = data; self.cuts = list(cuts); self.reads = 0
        if eof_at is not None:
            self.rest, _ = bsplit(data, eof_at)
    async def read(self, n):
        self.reads += 1
        avail = blen(self.rest)
        if avail == 0:
            return b""
        k = n
        if self.cuts:
            c = self.cuts.pop(0)
            if 1 <= c < n:
                k = c
        if avail < k:
            k = avail
        h, self.rest = bsplit(self.rest, k)
        return h


class Writer:
    def __init__(self):
        self.buf = vb.VB() if symbolic_mode() else b""
    def write(self, b):
        self.buf = self.buf + (b if symbolic_mode() else bytes(b))
    async def drain(self):
        pass


class _Shim:
    def __init__(self, force=False):
        self.force = force
    def __enter__(self):
        self.saved = {k: jk.__dict__.get(k, None) for k in ("bytearray", "pack", "unpack", "len")}
        if symbolic_mode() or self.force:
            jk.bytearray = vb.vbytearray; jk.pack = vb.vpack; jk.unpack = vb.vunpack; jk.len = vb.vlen
        return self
    def __exit__(self, *a):
        for k, v in self.saved.items():
            if v is None:
                jk.__dict__.pop(k, None)
            else:
                jk.__dict__[k] = v


def roundtrip(l0: int, l1: int, l2: int, l3: int, c0: int, c1: int, c2: int, c3: int) -> bool:
    """
    pre: 0 <= l0 <= MAXLEN and 0 <= l1 <= MAXLEN and 0 <= l2 <= MAXLEN and 0 <= l3 <= MAXLEN
    post: _
    """
    n = P("nparts"); ncuts = P("ncuts")
    parts = [blob(i, l) for i, l in enumerate([l0, l1, l2, l3][:n])]
    with _Shim():
        w = Writer()
        run(ZmqSocket(None, w, "ROUTER").send_multipart(parts))
        r = Reader(w.buf, [c0, c1, c2, c3][:ncuts])
        got = run(ZmqSocket(r, None, "ROUTER").recv_multipart())
        ok = [bnorm(g) for g in got] == [bnorm(p) for p in parts] and blen(r.rest) == 0
    detail(lens=[l0, l1, l2, l3][:n], cuts=[c0, c1, c2, c3][:ncuts], got=[blen(g) for g in got])
    return verdict(ok, True)


def roundtrip_single(l0: int, c0: int, c1: int, c2: int) -> bool:
    """
    pre: 0 <= l0 <= MAXLEN
    post: _
    """
    # send() (delimiter frame + body) read back by recv(): the joined payload is the message
    msg = blob(0, l0)
    with _Shim():
        w = Writer()
        run(ZmqSocket(None, w, "REP").send(msg))
        r = Reader(w.buf, [c0, c1, c2])
        if symbolic_mode():
            # recv() joins the frames with b"".join (C code, not encodable over abstract bytes): take the frame list and join here
            fr = run(ZmqSocket(r, None, "REP").recv(multipart=True))
            ok0 = len(fr) == 2 and blen(fr[0]) == 0
            got = fr[-1]
        else:
            got = run(ZmqSocket(r, None, "REP").recv()); ok0 = True
        ok = ok0 and bnorm(got) == bnorm(msg) and blen(r.rest) == 0
    detail(len=l0, cuts=[c0, c1, c2], got=blen(got))
    return verdict(ok, True)


def cmd_skipped(l0: int, l1: int, c0: int, c1: int, plen: int) -> bool:
    """
    pre: 0 <= l0 <= MAXLEN and 0 <= l1 <= MAXLEN and 0 <= plen <= 300
    post: _
    """
    # a command frame (READY with a parameter of symbolic length: short and long command forms) between two messages is skipped
    parts = [blob(0, l0), blob(1, l1)]
    class Param:                      # str-like whose encode() yields a blob of symbolic length
        def __init__(s, n): s.n = n
        def encode(s): return blob(5, s.n)
        def __len__(s): return s.n
    with _Shim():
        w = Writer()
        z = ZmqSocket(None, w, "ROUTER")
        run(z.send_multipart(parts[:1]))
        if symbolic_mode():
            run(z.send_cmd("READY", [["Socket-Type", Param(plen)]]))
        else:
            run(z.send_cmd("READY", [["Socket-Type", "R" * plen]]))
        run(z.send_multipart(parts[1:]))
        r = Reader(w.buf, [c0, c1])
        zr = ZmqSocket(r, None, "ROUTER")
        g0 = run(zr.recv_multipart()); g1 = run(zr.recv_multipart())
        ok = [bnorm(x) for x in g0] == [bnorm(parts[0])] and [bnorm(x) for x in g1] == [bnorm(parts[1])] and blen(r.rest) == 0
    detail(lens=[l0, l1], plen=plen, cuts=[c0, c1])
    return verdict(ok, True)


def eof_inside(l0: int, l1: int, cut: int, c0: int) -> bool:
    """
    pre: 0 <= l0 <= MAXLEN and 0 <= l1 <= MAXLEN and 0 <= cut
    post: _
    """
    # the stream ends `cut` bytes in, strictly before the end of the two-frame message: recv raises EOFError, never returns frames
    parts = [blob(0, l0), blob(1, l1)]
    with _Shim():
        w = Writer()
        run(ZmqSocket(None, w, "ROUTER").send_multipart(parts))
        total = blen(w.buf)
        if not cut < total:
            return verdict(True, False)
        r = Reader(w.buf, [c0], eof_at=cut)
        try:
            got = run(ZmqSocket(r, None, "ROUTER").recv_multipart()); exc = None
        except Exception as e:
            got = None; exc = type(e)
    detail(lens=[l0, l1], cut=cut, exc=str(exc))
    return verdict(exc is EOFError and got is None, True)


def read_bytes_step(n: int, have: int, c0: int, c1: int, c2: int, avail: int) -> bool:
    """
    pre: 0 <= n <= MAXLEN and 0 <= avail <= 2 * MAXLEN
    post: _
    """
    # read_bytes(n) returns exactly the next n bytes of the stream whatever the fragment sizes, or EOFError when fewer exist
    data = blob(0, avail)
    with _Shim():
        r = Reader(data, [c0, c1, c2])
        try:
            got = run(ZmqSocket(r, None, "X").read_bytes(n)); exc = None
        except Exception as e:
            got = None; exc = type(e)
        if avail < n:
            ok = exc is EOFError
        else:
            exp, _ = bsplit(data, n)
            ok = exc is None and bnorm(got) == bnorm(exp) and blen(r.rest) == avail - n
    detail(n=n, avail=avail, cuts=[c0, c1, c2], exc=str(exc))
    return verdict(ok, avail >= n)


# ---------------------------------------------------------------------------------------------- authentication / correlation
TYPES = ["execute_request", "kernel_info_request", "complete_request", "is_complete_request", "comm_info_request", "history_request",
         "comm_open", "shutdown_request", "bogus_request"]
CELLS = ["1+2", "x = 5", "1/0", "print('hi')", "1+", "x"]
KEY = "secret-key"


class Sock:
    def __init__(self, name, log):
        self.name = name; self.log = log
    async def send_multipart(self, parts):
        self.log.append((self.name, [bytes(p) for p in parts]))


def _frames(msg_type, content, mid="m1"):
    return [json.dumps({"msg_id": mid, "msg_type": msg_type, "session": "s", "username": "u", "version": "5.3"}).encode(), b"{}", b"{}",
            json.dumps(content).encode()]


def _real_sig(key, frames):
    import hmac, hashlib
    h = hmac.HMAC(key.encode(), digestmod=hashlib.sha256)
    for f in frames:
        h.update(f)
    return h.hexdigest().encode()


class _NullLog:
    def debug(self, *a, **k): pass
    info = warning = error = exception = debug


class _KernelEnv:
    """a Kernel on the full-stack world (real interpreter context), recording sockets"""
    def __init__(self):
        from vlib.world import World
        self.w = World(False, setup=False)          # scheduler + stub hass; only the task reaper/waiter are needed by the kernel
        self.w.hass.data["pyscript"] = {"config_entry": self.w.entry}
        Function.init(self.w.hass)
        from custom_components.pyscript.state import State
        State.init(self.w.hass)
        gname = "jupyter_0"
        self.g = GlobalContext(gname, global_sym_table={"__name__": gname}, manager=GlobalContextMgr)
        self.g.set_auto_start(True); GlobalContextMgr.set(gname, self.g)
        a = AstEval(gname, self.g); Function.install_ast_funcs(a)
        self.k = jk.Kernel({"key": KEY, "signature_scheme": "hmac-sha256"}, a, self.g, gname)
        a.add_logger_handler(self.k.console)               # as Kernel.session_start does
        import logging
        self._lg = a.get_logger(); self._lvl = self._lg.level; self._lg.setLevel(logging.DEBUG); self._a = a
        self._jklog = jk._LOGGER
        jk._LOGGER = _NullLog()                            # log formatting of (symbolic) wire frames is not the subject: empty bodies
        self.log = []
        self.k.iopub_socket = {Sock("iopub", self.log)}
        self.shell = Sock("shell", self.log)
        self.hk = self.w.env.create_task(self.k.housekeep_run(), "hk")
        self.w.settle()
    def handle(self, wire):
        t = self.w.env.create_task(self.k.shell_handler(self.shell, wire), "sh"); self.w.settle()
        return t
    def decoded(self, start=0):
        out = []
        for name, parts in self.log[start:]:
            i = parts.index(jk.DELIM)
            hdr = json.loads(parts[i + 2]); par = json.loads(parts[i + 3]); cont = json.loads(parts[i + 5])
            sig_ok = parts[i + 1] == _real_sig(KEY, parts[i + 2:i + 6])
            out.append({"sock": name, "type": hdr["msg_type"], "ids": parts[:i], "parent": par, "content": cont, "sig_ok": sig_ok})
        return out
    def close(self):
        self._a.remove_logger_handler(self.k.console); self._lg.setLevel(self._lvl)
        jk._LOGGER = self._jklog
        self.w.close()


def auth(sig: bytes, ti: int, ci: int, nid: int, alter: int) -> bool:
    """
    pre: len(sig) <= P("siglen") and 0 <= ti < len(TYPES) and 0 <= ci < len(CELLS) and 0 <= nid <= 2 and 0 <= alter <= 3
    post: _
    """
    mode = P("mode")
    if mode == 0:
        ti = 0; ci = 1; nid = 1; alter = 0       # the free signature bytes are the only symbolic input here (execute "x = 5": execution is observable)
    if mode == 3 and P("tier") == "quick":
        nid = 1
    # mode 0: signature frame = the free symbolic bytes `sig`; 1: valid; 2: valid signature of a message signed with another key;
    # 3: valid signature but frame `alter` modified afterwards
    e = _KernelEnv()
    try:
        uses_code = TYPES[ti] in ("execute_request", "complete_request", "is_complete_request")
        cell = CELLS[ci] if uses_code else "1"          # the cell index only forks where the request type reads the code
        content = {"code": cell, "cursor_pos": 1, "store_history": True}
        frames = _frames(TYPES[ti], content)
        good = _real_sig(KEY, frames)
        if mode == 0:
            s = sig
        elif mode == 1:
            s = good
        elif mode == 2:
            s = _real_sig(KEY + "x", frames)
        else:
            s = good
            frames = list(frames); frames[alter] = frames[alter].replace(b"}", b" }", 1)
        ids = [b"id%d" % i for i in range(nid)]
        wire = ids + [jk.DELIM, s] + frames
        before = e.k.execution_count
        t = e.handle(wire)
        msgs = e.decoded()
        x = e.g.global_sym_table.get("x")
        valid = (mode == 1) or (mode == 0 and sig == good)
        hdr = json.loads(frames[0])
        detail(mode=mode, type=TYPES[ti], cell=cell, sent=[(m["sock"], m["type"]) for m in msgs], exc=type(t.exc).__name__ if t.exc else None, x=x)
        if not valid:
            ok = len(msgs) == 0 and x is None and e.k.execution_count == before and isinstance(t.exc, ValueError)
            return verdict(ok, False)
        shell = [m for m in msgs if m["sock"] == "shell"]; iopub = [m for m in msgs if m["sock"] == "iopub"]
        ok = t.exc is None and all(m["sig_ok"] for m in msgs) and all(m["parent"] == hdr for m in msgs)
        ok = ok and len(iopub) >= 2 and iopub[0]["type"] == "status" and iopub[0]["content"] == {"execution_state": "busy"} \
            and iopub[-1]["type"] == "status" and iopub[-1]["content"] == {"execution_state": "idle"} \
            and sum(1 for m in iopub if m["type"] == "status") == 2
        replies = {"execute_request": "execute_reply", "kernel_info_request": "kernel_info_reply", "complete_request": "complete_reply",
                   "is_complete_request": "is_complete_reply", "comm_info_request": "comm_info_reply", "history_request": "history_reply",
                   }     # shutdown_request belongs to the control channel: on the shell socket it is an unknown type (no reply)
        exp_reply = replies.get(TYPES[ti])
        if exp_reply is None:
            ok = ok and len(shell) == 0
        else:
            ok = ok and len(shell) == 1 and shell[0]["type"] == exp_reply and shell[0]["ids"] == ids
        if TYPES[ti] == "execute_request":
            res = [m for m in iopub if m["type"] == "execute_result"]; err = [m for m in iopub if m["type"] == "error"]
            out = [m for m in iopub if m["type"] == "stream"]
            exp = {"1+2": ("ok", "3", None), "x = 5": ("ok", None, None), "1/0": ("error", None, "ZeroDivisionError"), "print('hi')": ("ok", None, None),
                   "1+": ("error", None, "SyntaxError"), "x": ("error", None, "NameError")}[cell]
            ok = ok and shell[0]["content"]["status"] == exp[0] and shell[0]["content"]["execution_count"] == before
            ok = ok and e.k.execution_count == before + 1
            ok = ok and ([m["content"]["data"]["text/plain"] for m in res] == ([exp[1]] if exp[1] else []))
            ok = ok and ([m["content"]["ename"] for m in err] == ([exp[2]] if exp[2] else []))
            ok = ok and (x == (5 if cell == "x = 5" else None))
            if cell == "print('hi')":
                ok = ok and [m["content"].get("text") for m in out] == ["hi\n"]
                # stdout is delivered before the idle status
                ok = ok and iopub.index(out[0]) < len(iopub) - 1
        else:
            ok = ok and e.k.execution_count == before
        return verdict(ok, True)
    finally:
        e.close()


def two_cells(c1: int, h0: bool, h1: bool) -> bool:
    """
    pre: 0 <= c1 < len(CELLS)
    post: _
    """
    c0 = P("c0")
    # execution counter and results reflect the executed cells in order; store_history=False does not advance the counter
    e = _KernelEnv()
    try:
        seen = []
        cnt = e.k.execution_count
        ok = True
        xval = None
        for n, (ci, hist) in enumerate([(c0, h0), (c1, h1)]):
            frames = _frames("execute_request", {"code": CELLS[ci], "store_history": hist}, mid="m%d" % n)
            start = len(e.log)
            t = e.handle([b"idA", jk.DELIM, _real_sig(KEY, frames)] + frames)
            msgs = e.decoded(start)
            shell = [m for m in msgs if m["sock"] == "shell"]
            ok = ok and t.exc is None and len(shell) == 1 and shell[0]["content"]["execution_count"] == cnt and shell[0]["parent"]["msg_id"] == "m%d" % n
            ok = ok and all(m["parent"]["msg_id"] == "m%d" % n for m in msgs)
            cell = CELLS[ci]
            if cell == "x = 5": xval = 5
            res = [m["content"]["data"]["text/plain"] for m in msgs if m["type"] == "execute_result"]
            err = [m["content"]["ename"] for m in msgs if m["type"] == "error"]
            if cell == "x":
                ok = ok and (res == ["5"] if xval == 5 else err == ["NameError"])
            seen.append((cell, res, err))
            if hist: cnt += 1
            ok = ok and e.k.execution_count == cnt
        detail(seen=seen)
        return verdict(ok, True)
    finally:
        e.close()


# ---------------------------------------------------------------------------------------------- preflight
def preflight():
    """vbytes agrees with real bytes on the framing code for the boundary lengths"""
    import sys
    assert "crosshair" not in sys.modules
    for L in (0, 1, 254, 255, 256, 257, 65535, 65536):
        real_w = Writer(); run(ZmqSocket(None, real_w, "R").send_multipart([b"a" * L, b"b" * 3]))
        with _Shim(force=True):
            class W2(Writer):
                def __init__(s): s.buf = vb.VB()
                def write(s, b): s.buf = s.buf + b
            w2 = W2(); run(ZmqSocket(None, w2, "R").send_multipart([vb.VB([("blob", 0, 0, L)]), vb.VB([("blob", 1, 0, 3)])]))
        # render the abstract stream with the same payload bytes and compare
        out = b""
        for c in w2.buf.ch:
            if c[0] == "lit": out += bytes([c[1]])
            elif c[0] == "be": out += c[2].to_bytes(c[1], "big")
            else: out += (b"a" if c[1] == 0 else b"b") * c[3]
        assert out == real_w.buf, (L, out[:20], real_w.buf[:20])
    detail(vbytes_vs_bytes="8 boundary lengths equal")
    return True


def obligations(tier):
    o = []
    sym_len = "frame lengths l_i in [0, 10^6] (symbolic ints: crosses 0/255/256/65535/65536), fragment sizes c_j: any int (used when 1 <= c_j < requested)"
    quick_combos = [(1, 3), (2, 3), (3, 1)]
    combos = quick_combos if tier == "quick" else quick_combos + [(3, 3), (4, 2), (3, 4)]
    for n, nc in combos:
        o.append(Obl(f"C19.frame.multipart.n{n}.c{nc}", __name__, "roundtrip", {"nparts": n, "ncuts": nc},
                     timeout=200 if (n, nc) in quick_combos else 2400, tier="quick" if (n, nc) in quick_combos else "thorough",
                     desc="send_multipart then recv_multipart returns exactly the frames sent and consumes the whole stream, for every fragmentation",
                     sym=f"{n} frames, {nc} TCP cuts; " + sym_len, twin=(n == 2),
                     encodes=("jupyter_kernel.ZmqSocket.send_multipart", "jupyter_kernel.ZmqSocket.recv", "jupyter_kernel.ZmqSocket.read_bytes")))
    o += [
        Obl("C19.frame.single", __name__, "roundtrip_single", {}, timeout=120, desc="send(msg) read back by recv() yields msg", sym="1 message, 3 cuts; " + sym_len,
            encodes=("jupyter_kernel.ZmqSocket.send", "jupyter_kernel.ZmqSocket.recv")),
        Obl("C19.frame.cmd", __name__, "cmd_skipped", {}, timeout=400,
            desc="a command frame (short and long form) between two messages is skipped by recv; both messages intact",
            sym="2 messages, parameter length in [0,300], 2 cuts; " + sym_len, encodes=("jupyter_kernel.ZmqSocket.send_cmd", "jupyter_kernel.ZmqSocket.recv")),
        Obl("C19.frame.eof", __name__, "eof_inside", {}, timeout=300, desc="EOF anywhere strictly inside a message raises EOFError; no frames are returned",
            sym="2 frames, EOF position symbolic, 1 cut; " + sym_len, encodes=("jupyter_kernel.ZmqSocket.read_bytes",)),
        Obl("C19.frame.read_bytes", __name__, "read_bytes_step", {}, timeout=200,
            desc="read_bytes(n) returns exactly the next n bytes for every fragmentation (loop step: more cuts than the bound follow by induction), EOFError if fewer remain",
            sym="n in [0,10^6], available bytes in [0,2*10^6], 3 cuts then whole reads", encodes=("jupyter_kernel.ZmqSocket.read_bytes",)),
    ]
    modes = {0: "symbolic signature bytes", 1: "valid signature", 2: "signed with another key", 3: "valid signature, one frame altered afterwards"}
    for mode, mdesc in modes.items():
        o.append(Obl(f"C19.auth.mode{mode}", __name__, "auth", {"siglen": 2 if tier == "quick" else 3, "mode": mode, "tier": tier}, timeout=600 if tier == "quick" else 2400,
            desc="a request whose signature frame is not the HMAC of its four frames under the session key is neither executed nor answered (ValueError); "
                 "a valid one gets exactly one signed reply on the shell socket addressed to the request identities with the request header as parent, "
                 "bracketed by busy/idle on iopub; results, errors, stdout and the execution counter as specified  [" + mdesc + "]",
            sym="signature: every byte string of length <= bound (mode 0); request type index (9), cell index (6), 0..2 identities, altered frame index (mode 3)",
            twin=(mode == 1),
            encodes=("jupyter_kernel.Kernel.shell_handler", "jupyter_kernel.Kernel.deserialize_wire_msg", "jupyter_kernel.Kernel.send", "jupyter_kernel.Kernel.msg_sign")))
    for c0 in range(len(CELLS)):
        o.append(Obl(f"C19.cells.first{c0}", __name__, "two_cells", {"c0": c0}, timeout=600, desc="two execute requests in sequence: counter, per-cell results/errors, parent correlation, store_history",
            sym=f"first cell {CELLS[c0]!r}; second cell index (6), 2 store_history bools", twin=(c0 == 1), encodes=("jupyter_kernel.Kernel.shell_handler",)))
    return o
