"""C20 - requirements resolution is order-independent and never overrides the host.

The multiset of requirement lines (kind and version of each line as indices into small tables), their distribution over files, the order of
files and lines (a symbolic permutation), the installed / previously recorded / requested versions and allow_all_imports are solver
variables; the real process_all_requirements / install_requirements / update_unpinned_versions run against in-memory files and a recording
installer.  Version strings themselves come from a finite table (packaging.version parses concrete strings).
"""
import copy

from vlib import ctx
from vlib.ctx import P, verdict, detail
from vlib.obl import Obl
from vlib.base import run, symbolic_mode, notrace

LEVEL = "model_checking"
EXPLANATION = ("bounded-exhaustive symbolic decision-table checking: the real requirements code is executed symbolically over line kinds, file placement, a symbolic permutation of files and "
               "lines, and installed/recorded/requested version indices; z3 enumerates the path space and decides the postcondition on each path")
BOUNDS = {"quick": "3 lines: first any of 14 line kinds, second any of 8, third any of 4 (pins 2.0.9 / 2.0.10 / unpinned / other package), over 2 files in both glob orders, both line orders; "
                   "install: 2 packages x (installed, recorded, requested) version indices, allow_all_imports, two consecutive runs, second request in {none, 1.0, 2.0.0, unpinned}",
          "thorough": "3 lines: first any of 14 kinds, the others any of 8, over 3 files, 3 glob orders; install: all 5 request forms in both runs"}
OUTSIDE = "version strings outside the table; pip / Home Assistant's installer itself; requirement syntax beyond name, name==version and the listed unsupported forms"
ASSUMPTIONS = ["glob/open/importlib.metadata.version/async_process_requirements replaced by an in-memory universe and a recorder", "packaging.version.Version is the ordering of versions"]

UNP = "_unpinned_version"
# line kinds: (text, package, version or UNP or None for ignored)
LINES = [
    ("pkga==1.0\n", "pkga", "1.0"), ("pkga==2.0.9\n", "pkga", "2.0.9"), ("pkga==2.0.10\n", "pkga", "2.0.10"), ("pkga\n", "pkga", UNP),
    ("pkga==10.0 # comment\n", "pkga", "10.0"), ("# pkga==99\n", None, None), ("\n", None, None), ("pkga>=3.0\n", None, None),
    ("pkga==1.0,<2\n", None, None), ("pkga==1==2\n", None, None), ("pkgb==0.9\n", "pkgb", "0.9"), ("pkgb\n", "pkgb", UNP),
    ("  pkgb == 1.0\n".replace(" == ", "=="), "pkgb", "1.0"), ("pkga==2.0.10.0\n", "pkga", "2.0.10.0"),
]
SUB = [1, 2, 3, 10, 0, 4, 7, 11]        # line kinds the later lines range over (the first line ranges over all kinds, one obligation each)
PATHS = ["/p/requirements.txt", "/p/apps/x/requirements.txt", "/p/modules/y/requirements.txt"]
PERMS3 = [(0, 1, 2), (0, 2, 1), (1, 0, 2), (1, 2, 0), (2, 0, 1), (2, 1, 0)]


class _Env:
    def __init__(self, content, installed=None):
        from custom_components.pyscript import requirements as rq
        self.rq = rq; self.content = content; self.installed = dict(installed or {}); self.install_calls = []
        order = list(content)
        def fake_glob(pat):
            return [p for p in order if (pat == p or pat.replace("*", "x") == p or pat.replace("*", "y") == p or pat.replace("**", "zz") == p)]
        class F:
            def __init__(s, p): s.p = p
            def __enter__(s): return s
            def __exit__(s, *a): return False
            def readlines(s): return list(content[s.p])
        env = self
        async def installer(hass, domain, reqs):
            env.install_calls.append(list(reqs))
            for r in reqs:
                if "==" in r:
                    n, v = r.split("=="); env.installed[n] = v
                else:
                    env.installed[r] = "5.5"           # what pip would pick for an unpinned requirement
        self.saved = (rq.glob, rq.__dict__.get("open"), rq.get_installed_version, rq.async_process_requirements)
        rq.glob = type("G", (), {"glob": staticmethod(fake_glob)}); rq.open = lambda p, encoding=None: F(p)
        rq.get_installed_version = lambda n: env.installed.get(n); rq.async_process_requirements = installer
    def close(self):
        rq = self.rq
        rq.glob, _, rq.get_installed_version, rq.async_process_requirements = self.saved
        if self.saved[1] is None: rq.__dict__.pop("open", None)
        else: rq.open = self.saved[1]


def _ver(v):
    from packaging.version import Version
    return Version(v)


def resolve(l1: int, l2: int, l3: int, l4: int, f1: int, f2: int, f3: int, f4: int, fp: int, rev: bool) -> bool:
    """
    pre: l1 == P("first") and 0 <= l2 < len(SUB) and 0 <= l3 < P("n3") and 0 <= l4 < P("n3")
    pre: f1 == 0 and 0 <= f2 <= P("fmax") and 0 <= f3 <= P("fmax") and 0 <= f4 <= P("fmax") and 0 <= fp <= P("fmax")
    post: _
    """
    n = P("k")
    fp = [0, 3, 5][fp]
    lines = [(l1, f1), (SUB[l2], f2), (SUB[l3], f3), (SUB[l4], f4)][:n]
    if rev: lines = lines[::-1]
    pm = PERMS3[fp]                                     # which physical file comes first in the glob order
    content = {}
    for k in pm:
        txt = [LINES[l][0] for l, f in lines if f == k]
        if txt: content[PATHS[k]] = txt
    e = _Env(content)
    try:
        res = e.rq.process_all_requirements("/p", ("", "apps/*", "modules/*"), "requirements.txt")
    finally:
        e.close()
    got = {k: v["version"] for k, v in res.items()}
    # oracle: highest '==' pin per package, unpinned only if no pin, everything else ignored
    exp = {}
    for l, f in lines:
        _, pkg, ver = LINES[l]
        if pkg is None: continue
        cur = exp.get(pkg)
        if cur is None or cur == UNP: exp[pkg] = ver if (cur is None or ver != UNP) else cur
        elif ver != UNP and _ver(ver) > _ver(cur): exp[pkg] = ver
    ok = set(got) == set(exp) and all((got[k] == exp[k]) if UNP in (got[k], exp[k]) else (_ver(got[k]) == _ver(exp[k])) for k in exp)
    # the recorded sources name only files that really contain the winning requirement
    for k, v in res.items():
        for src in v["sources"]:
            ok = ok and any(LINES[l][1] == k and PATHS[f] == src for l, f in lines)
    if not symbolic_mode():
        detail(lines=[(LINES[l][0].strip(), PATHS[f]) for l, f in lines], file_order=[PATHS[k] for k in pm], got=got, expected=exp)
    return verdict(ok, len(exp) > 0)


VERS = [None, "1.0", "2.0", "2.0.0"]          # index 0 = absent; "2.0" and "2.0.0" are the same version


def install(allow: bool, ia: int, ra: int, qa: int, ib: int, rb: int, qb: int, qa2: int) -> bool:
    """
    pre: ia == P("ia") and 0 <= ra <= 3 and 0 <= qa <= 4 and 0 <= ib <= 1 and 0 <= rb <= 1 and (qb == 0 or qb == 1 or (qb == 4 and P("full"))) and 0 <= qa2 <= 4 and (P("full") or qa2 != 2) and allow == P("allow")
    post: _
    """
    # per package: installed version ia, version pyscript recorded having installed ra, requested qa (0 none, 1..3 pin VERS[q], 4 unpinned); second run with pkga's request changed to qa2
    from custom_components.pyscript import requirements as rq
    def reqlines(q, name):
        return [] if q == 0 else [name + "\n"] if q == 4 else [f"{name}=={VERS[q]}\n"]
    installed = {}
    if ia: installed["pkga"] = VERS[ia]
    if ib: installed["pkgb"] = VERS[ib]
    record = {}
    if ra: record["pkga"] = VERS[ra]
    if rb: record["pkgb"] = VERS[rb]
    persisted = []                                   # what reaches the config entry store
    class Entry:
        def __init__(s, data): s.data = data
    entry = Entry({"allow_all_imports": allow, **({"_installed_packages": dict(record)} if record else {})})
    class CE:
        def async_update_entry(s, entry=None, data=None, **kw):
            persisted.append(copy.deepcopy(data.get("_installed_packages")))
            entry.data = data
    async def executor(f, *a): return f(*a)
    hass = type("H", (), {"config_entries": CE(), "async_add_executor_job": staticmethod(executor)})()
    trace = []
    for rnd, q_a in enumerate((qa, qa2)):
        content = {}
        lines = reqlines(q_a, "pkga") + reqlines(qb, "pkgb")
        if lines: content[PATHS[0]] = lines
        e = _Env(content, installed)
        try:
            before_rec = copy.deepcopy(entry.data.get("_installed_packages", {}))
            run(rq.install_requirements(hass, entry, "/p"))
            calls = [c for c in e.install_calls]
            installed = dict(e.installed)
        finally:
            e.close()
        trace.append((before_rec, calls, copy.deepcopy(entry.data.get("_installed_packages", {})), dict(installed)))
    # ---- oracle per run
    ok = True
    inst = {}
    if ia: inst["pkga"] = VERS[ia]
    if ib: inst["pkgb"] = VERS[ib]
    rec = dict(record)
    store = None
    for rnd, q_a in enumerate((qa, qa2)):
        reqs = {}
        for name, q in (("pkga", q_a), ("pkgb", qb)):
            if q: reqs[name] = UNP if q == 4 else VERS[q]
        before_rec, calls, after_rec, after_inst = trace[rnd]
        exp_install = {}
        new_rec = dict(rec)
        if reqs and not allow:
            exp_calls = []                              # nothing is installed unless allow_all_imports is set
        else:
            for name, want in reqs.items():
                have = inst.get(name)
                if have is None:
                    exp_install[name] = want
                elif want == UNP:
                    if name in new_rec and new_rec[name] != have: new_rec.pop(name)
                elif name in new_rec and _ver(new_rec[name]) != _ver(have):
                    new_rec.pop(name)                   # somebody else changed it: hands off, and forget it
                elif name in new_rec and _ver(want) != _ver(have):
                    exp_install[name] = want            # pyscript's own package: follow the pin
            exp_calls = [[(n if v == UNP else f"{n}=={v}") for n, v in exp_install.items()]] if exp_install else []
            for n, v in exp_install.items():
                inst[n] = "5.5" if v == UNP else v
                new_rec[n] = inst[n]
            rec = new_rec
        ok = ok and [sorted(c) for c in calls] == [sorted(c) for c in exp_calls]
        ok = ok and after_inst == inst
        ok = ok and after_rec == rec
    # the record that reached the store is the last in-memory record (or nothing was ever written because nothing changed)
    final_rec = trace[-1][2]
    ok = ok and ((persisted[-1] == final_rec) if persisted else (final_rec == record))
    if not symbolic_mode():
        detail(allow=allow, pkga=(VERS[ia], VERS[ra], qa, qa2), pkgb=(VERS[ib], VERS[rb], qb), trace=trace, persisted=persisted, expected_final_record=rec, expected_installed=inst)
    return verdict(ok, bool(trace[0][1]) or bool(trace[1][1]))


def obligations(tier):
    o = []
    k = 3
    for first in range(len(LINES)):
        o.append(Obl(f"C20.resolve.first{first}", __name__, "resolve", {"k": k, "first": first, "n3": 4 if tier == "quick" else len(SUB), "fmax": 1 if tier == "quick" else 2}, timeout=900 if tier == "quick" else 3000,
                     desc=f"first line {LINES[first][0].strip()!r}: process_all_requirements selects, for each package, the highest '==' pin (by version, not by string), an unpinned entry only if no pin "
                          "exists; comments, blank lines, >=/</comma/double-== forms are ignored; the result is the same for every order of files and lines; sources name files that contain the requirement",
                     sym=f"{k - 1} further lines: kind index into {len(SUB)} line kinds, file index (3 files) each; glob order of the files (3 permutations); reversal of the lines - symbolic",
                     twin=(first in (0, 3)), encodes=("requirements.process_all_requirements",)))
    for allow in (True, False):
        for ia in range(4):
            if not allow and ia > 1: continue
            o.append(Obl(f"C20.install.allow_{allow}.installed{ia}", __name__, "install", {"allow": allow, "ia": ia, "full": tier != "quick"}, timeout=1500,
                         desc="install_requirements, two consecutive runs (the second with pkga's request changed): nothing is installed unless allow_all_imports; a package installed by someone else "
                              "is never passed to the installer and is dropped from the record; a package pyscript installed is updated iff the pin differs; the record in the config entry store equals "
                              "what pyscript installed after every run",
                         sym=f"pkga installed = {VERS[ia]}; recorded / requested / second request version indices (absent, 1.0, 2.0, 2.0.0, unpinned); pkgb installed/recorded in 2, requested in 3 - symbolic",
                         twin=(allow and ia == 0), encodes=("requirements.install_requirements",)))
    return o
