"""Minimal environment for driving pyscript's interpreter directly (no scheduler): a bare stub hass,
`run` for coroutines that never suspend, and the two executors of the differential harnesses."""
import sys
from . import ctx
if ctx.REPO not in sys.path:
    sys.path.insert(0, ctx.REPO)
from custom_components.pyscript.const import DOMAIN, CONFIG_ENTRY
from custom_components.pyscript.function import Function
from custom_components.pyscript.state import State
from custom_components.pyscript.eval import AstEval
from custom_components.pyscript.global_ctx import GlobalContext, GlobalContextMgr


class _CE:
    data = {}


class _States:
    def get(self, n):
        return None


class _Services:
    def has_service(self, d, s):
        return False


class BareHass:
    def __init__(self):
        self.data = {DOMAIN: {CONFIG_ENTRY: _CE()}}
        self.states = _States()
        self.services = _Services()


HASS = BareHass()


def install_bare():
    Function.hass = HASS
    State.hass = HASS


install_bare()


def bare_init():
    """populate Function.functions / ast_functions (print, log.*, task.*) without starting the reaper/waiter tasks"""
    r, w = Function.task_reaper, Function.task_waiter
    Function.task_reaper = r or "bare"; Function.task_waiter = w or "bare"
    try:
        Function.init(HASS)
        from custom_components.pyscript.decorator import DecoratorRegistry
        DecoratorRegistry.init(HASS, _CE())          # registry of the built-in decorators (default subsystem), needed by ast_functiondef
    finally:
        Function.task_reaper, Function.task_waiter = r, w


bare_init()


def run(coro):
    """drive a coroutine that must complete without suspending"""
    try:
        coro.send(None)
    except StopIteration as e:
        return e.value
    coro.close()
    raise RuntimeError("coroutine suspended")


def pys_exec(src, env, name="test"):
    g = {**env}
    gctx = GlobalContext(name, global_sym_table=g, manager=GlobalContextMgr)
    a = AstEval(name, global_ctx=gctx)
    a.parse(src)
    run(a.eval())
    return g


def pys_exec2(src_def, src_run, env, name="test"):
    """two-phase execution: definitions (static analysis of function bodies - nothing symbolic) untraced, then the run part traced"""
    g = {**env}
    with notrace():
        gctx = GlobalContext(name, global_sym_table=g, manager=GlobalContextMgr)
        a = AstEval(name, global_ctx=gctx)
        a.parse(src_def)
        run(a.eval())
    a.parse(src_run)
    run(a.eval())
    return g


def cpy_exec2(src_def, src_run, env, name="test"):
    g = {**env}
    with notrace():
        exec(compile(src_def, name, "exec"), g)
    exec(compile(src_run, name, "exec"), g)
    g.pop("__builtins__", None)
    return g


def cpy_exec(src, env, name="test"):
    g = {**env}
    exec(compile(src, name, "exec"), g)
    g.pop("__builtins__", None)
    return g


class EqSet:
    """set whose membership test is a disjunction of equalities: keeps a symbolic str symbolic
    (hashing a symbolic str realises it).  Supports the read-only set protocol so that equivalent
    formulations of a membership test in the code under analysis keep working."""

    def __init__(self, items):
        self.items = sorted(items)

    def __contains__(self, x):
        r = False
        for it in self.items:
            if x == it:
                r = True
        return r

    def __iter__(self):
        return iter(self.items)

    def __len__(self):
        return len(self.items)

    def __bool__(self):
        return bool(self.items)

    def _sel(self, other):
        return [x for x in other if x in self]

    def __and__(self, other):
        return self._sel(other)
    __rand__ = __and__
    intersection = __and__

    def isdisjoint(self, other):
        return not self._sel(other)

    def issuperset(self, other):
        return all(x in self for x in other)
    __ge__ = issuperset

    def __or__(self, other):
        return EqSet(list(self.items) + [x for x in other if x not in self])
    __ror__ = __or__
    union = __or__

    def __rsub__(self, other):
        return [x for x in other if x not in self]

    def __eq__(self, other):
        return len(other) == len(self.items) and all(x in self for x in other)

    def __hash__(self):
        return id(self)


def symbolic_mode():
    """True while running under CrossHair (shims that only exist to keep values symbolic are skipped in plain replay)"""
    return "crosshair" in sys.modules


def eqset(items):
    return EqSet(items) if symbolic_mode() else set(items)


def realize(x):
    """make a symbolic value concrete (forks/realises under CrossHair; identity in plain replay)"""
    if "crosshair" in sys.modules:
        from crosshair.core import deep_realize
        return deep_realize(x)
    return x


def notrace():
    """context manager: suspend CrossHair tracing for concrete set-up code (null context in plain replay)"""
    if "crosshair" in sys.modules:
        from crosshair.tracers import NoTracing
        return NoTracing()
    import contextlib
    return contextlib.nullcontext()


def pick(v, n, lo=0):
    """concretise a small symbolic index by case split: one solver decision per value.  (Indexing a list or dict with a symbolic int
    makes CrossHair build a symbolic lookup that costs far more than the enumeration it stands for.)"""
    for i in range(lo, n):
        if v == i:
            return i
    return v
