import crosshair.core_and_libs  # make all registrations first
import crosshair.register_contract as rc
import crosshair.condition_parser as cp
_orig = rc.get_contract
def _safe_get_contract(fn):
    try:
        hash(fn)
    except TypeError:
        return None
    return _orig(fn)
rc.get_contract = _safe_get_contract
cp.get_contract = _safe_get_contract

# model python floats as reals only (no 2% IEEE branch): stated assumption
import crosshair.libimpl.builtinslib as _bl
_bl._PYTYPE_TO_WRAPPER_TYPE[float] = ((_bl.RealBasedSymbolicFloat, 1.0),)

# CrossHair's own repr() replacement carries a PEP316 docstring ("post[]: True") which makes
# every repr(x) call go through contract enforcement / short-circuiting (deep-copies x): drop it.
import crosshair.core as _cc
def _repr_nocontract(obj):
    return _bl.invoke_dunder(obj, "__repr__")
for _k in list(_cc._PATCH_REGISTRATIONS):
    if _cc._PATCH_REGISTRATIONS[_k] is _bl._repr:
        _cc._PATCH_REGISTRATIONS[_k] = _repr_nocontract

# time.time()/monotonic() are modelled by CrossHair as nondeterministic symbolic floats which HA's
# State/Event/Context constructors immediately realise (infinite realisation nodes).  pyscript's own
# clocks are virtualised by the harness, so let HA read the real clock (values never compared).
import crosshair.register_contract as _rc
import time as _time
for _fn in (_time.time, _time.time_ns, _time.monotonic, _time.monotonic_ns, _time.process_time, _time.process_time_ns):
    _rc.REGISTERED_CONTRACTS.pop(_fn, None)

# --- measurement: count and time solver queries -------------------------------------------
import z3 as _z3, time as _t
SOLVER_STATS = {"checks": 0, "time_s": 0.0, "unknown": 0}
_orig_check = _z3.Solver.check
def _timed_check(self, *a, **k):
    t0 = _t.perf_counter()
    r = _orig_check(self, *a, **k)
    SOLVER_STATS["checks"] += 1
    SOLVER_STATS["time_s"] += _t.perf_counter() - t0
    if str(r) == "unknown":
        SOLVER_STATS["unknown"] += 1
    return r
_z3.Solver.check = _timed_check

# --- logging: formatting a record is never the subject of an obligation; do it untraced and never let it fail ---------------
import logging as _logging
from crosshair.tracers import NoTracing as _NoTracing
_orig_getMessage = _logging.LogRecord.getMessage
def _safe_getMessage(self):
    with _NoTracing():
        try:
            return _orig_getMessage(self)
        except BaseException:  # noqa: symbolic values cannot be rendered while not tracing
            try:
                return str(self.msg)
            except BaseException:  # noqa
                return "<unprintable log record>"
_logging.LogRecord.getMessage = _safe_getMessage
