"""Per-obligation context shared by worker, replay and the contract functions.

A contract function (PEP-316 docstring, analysed by CrossHair) reads its concrete
parameters from PARAMS, reports its verdict through `verdict(ok, nontrivial)`, and may
leave diagnostic detail in DETAIL for the replay report.
"""
import os
DEBUG = bool(os.environ.get("VERIF_DEBUG"))

PARAMS = {}          # concrete parameters of the obligation being analysed
MODE = "check"       # "check" | "twin"  (twin: postcondition says the interesting observation never happens)
REAL_LOOP = False    # replay tier 2: real asyncio loop with a virtual clock
DETAIL = {}          # filled by contract functions during (concrete) replay
STATS = {"paths": 0, "nontrivial": 0}
REPO = os.environ.get("PYSCRIPT_VERIF_REPO", "/repo")


def P(key, default=None):
    return PARAMS.get(key, default)


def verdict(ok, nontrivial=True):
    """Every contract function returns verdict(ok, nontrivial).

    check mode: the postcondition is `ok`.
    twin mode : the postcondition is "never (ok and nontrivial)"; it must be REFUTED, which
                shows the harness reaches the interesting observation (vacuity guard).
    """
    STATS["paths"] += 1
    if MODE == "twin":
        if ok:
            if nontrivial:
                STATS["nontrivial"] += 1
                return False
        return True
    if ok:
        if nontrivial:
            STATS["nontrivial"] += 1
        return True
    if os.environ.get("VERIF_DEBUG"):
        import sys
        print("VERDICT-FALSE", {k: repr(v)[:300] for k, v in DETAIL.items()}, file=sys.stderr, flush=True)
    return False


def detail(**kw):
    DETAIL.update(kw)
