"""Differential execution: the same source, on the same (symbolic) input values, under pyscript's AstEval and under CPython.

A tracer `t(i, v=None)` (logs i, returns v, or i when v is omitted) may sit at any operand position; `ev(i)` only logs.
Outcome = (exception type name, comparable view of the final globals, tracer log)."""
import types

from .base import run, pys_exec, cpy_exec


class Tracer:
    def __init__(self):
        self.log = []
    def t(self, i, v=None):
        self.log += [i]
        return i if v is None else v
    def ev(self, i):
        self.log += [i]


def _norm(v, depth=0):
    """comparable view of a value: instances of program-defined classes become (class name, attributes)"""
    if type(v).__name__ == "EvalLocalVar":          # pyscript keeps some module-level bindings in a cell object
        try:
            v = v.get()
        except Exception:
            return "<undefined cell>"
    if isinstance(v, (types.FunctionType, types.ModuleType, type, types.BuiltinFunctionType, types.MethodType)) or callable(v):
        return "<callable>"
    if hasattr(v, "__dict__") and (type(v).__flags__ & (1 << 9)) and depth < 3 and not isinstance(v, (int, float, str, bytes, list, tuple, dict, set)):
        return ("<inst>", type(v).__name__, {k: _norm(x, depth + 1) for k, x in vars(v).items()})
    return v


def view(g, skip):
    out = {}
    for k in g:
        if k in skip or k.startswith("__"):
            continue
        v = _norm(g[k])
        if isinstance(v, (types.FunctionType, types.ModuleType, type, types.BuiltinFunctionType, types.MethodType)) or callable(v):
            out[k] = "<callable>"
        else:
            out[k] = v
    return out


def outcome(executor, src, env, extra_skip=()):
    tr = Tracer()
    e = {**env, "t": tr.t, "ev": tr.ev}
    try:
        g = executor(src, e); exc = None
    except Exception as x:
        g = {}; exc = type(x).__name__
        # the partial globals are not comparable in general (pyscript keeps working in the same dict): compare what a script can observe - the log
    skip = set(env) | {"t", "ev"} | set(extra_skip)
    return exc, (view(g, skip) if exc is None else None), tr.log


def same_keys(x, y):
    return sorted(x) == sorted(y)


def agree(src, env):
    """(ok, pyscript outcome, cpython outcome)"""
    a = outcome(pys_exec, src, env)
    b = outcome(cpy_exec, src, env)
    ok = a[0] == b[0] and a[2] == b[2]
    if ok and a[0] is None:
        ok = same_keys(a[1], b[1])
        if ok:
            for k in sorted(a[1]):
                if not veq(a[1][k], b[1][k]):
                    ok = False
    return ok, a, b


def veq(x, y):
    """structural equality that also requires the same type for bool vs int vs float results"""
    if type(x) is not type(y):
        # symbolic proxies have their own types: fall back on value equality when both are numbers
        if isinstance(x, (int, float)) and isinstance(y, (int, float)) and isinstance(x, bool) == isinstance(y, bool):
            return x == y
        for kind in (str, bytes, list, tuple, dict, set, frozenset):
            if isinstance(x, kind) and isinstance(y, kind):
                break
        else:
            return False
    if isinstance(x, (list, tuple)):
        return len(x) == len(y) and all(veq(a, b) for a, b in zip(x, y))
    if isinstance(x, dict):
        return list(x) == list(y) and all(veq(x[k], y[k]) for k in x)
    return x == y
