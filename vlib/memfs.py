"""In-memory file universe standing in for glob/open/os.path in pyscript modules.
Path membership is a disjunction of equalities so that a symbolic path stays symbolic."""
import io, os as _os, fnmatch, posixpath


class MemFS:
    def __init__(self, files=None):
        # path -> [source, mtime]
        self.files = {}
        for p, v in (files or {}).items():
            self.files[p] = list(v) if isinstance(v, (list, tuple)) else [v, 1.0]

    def _find(self, path):
        for p in sorted(self.files):
            if path == p:
                return self.files[p]
        return None

    # os.path subset
    def isfile(self, path):
        return self._find(path) is not None

    def isdir(self, path):
        pre = path.rstrip("/") + "/"
        return any(p.startswith(pre) for p in self.files)

    def getmtime(self, path):
        f = self._find(path)
        if f is None:
            raise FileNotFoundError(path)
        return f[1]

    def open(self, path, mode="r", encoding=None, **kw):
        if "w" in mode:
            fs = self
            class W(io.StringIO):
                def close(s):
                    fs.files[path] = [s.getvalue(), fs.files.get(path, [None, 0.0])[1] + 1.0]
                    super().close()
            return W()
        f = self._find(path)
        if f is None:
            raise FileNotFoundError(2, "No such file or directory", path)
        return io.StringIO(f[0])

    def glob(self, pattern, recursive=False):
        from vlib.base import notrace
        with notrace():
            if type(pattern) is str and all(type(p) is str for p in self.files):      # nothing symbolic: no point in tracing fnmatch's regex compiler
                return self._glob(pattern, recursive)
        return self._glob(pattern, recursive)

    def _glob(self, pattern, recursive=False):
        out = []
        for p in sorted(self.files):
            if _glob_match(p, pattern, recursive):
                out.append(p)
        # directories matching (pyscript globs "apps/*" for package dirs)
        dirs = set()
        for p in self.files:
            parts = p.split("/")
            for i in range(1, len(parts)):
                dirs.add("/".join(parts[:i]))
        for d in sorted(dirs):
            if _glob_match(d, pattern, recursive) and d not in out:
                out.append(d)
        return out

    def os_shim(self):
        fs = self
        class _Path:
            join = staticmethod(posixpath.join); dirname = staticmethod(posixpath.dirname); basename = staticmethod(posixpath.basename)
            abspath = staticmethod(lambda p: p); splitext = staticmethod(posixpath.splitext); relpath = staticmethod(posixpath.relpath)
            isfile = staticmethod(fs.isfile); isdir = staticmethod(fs.isdir); getmtime = staticmethod(fs.getmtime)
            exists = staticmethod(lambda p: fs.isfile(p) or fs.isdir(p)); sep = "/"
        class _OS:
            path = _Path; sep = "/"; environ = _os.environ
            @staticmethod
            def makedirs(p, exist_ok=False): return None
            @staticmethod
            def listdir(p): return sorted({q[len(p.rstrip('/')) + 1:].split('/')[0] for q in fs.files if q.startswith(p.rstrip('/') + '/')})
        return _OS

    def glob_shim(self):
        fs = self
        class _G:
            glob = staticmethod(fs.glob)
        return _G


def _glob_match(path, pattern, recursive):
    pp = pattern.split("/"); xp = path.split("/")
    def rec(i, j):
        if i == len(pp):
            return j == len(xp)
        if pp[i] == "**" and recursive:
            return any(rec(i + 1, k) for k in range(j, len(xp) + 1))
        if j >= len(xp):
            return False
        return fnmatch.fnmatchcase(xp[j], pp[i]) and rec(i + 1, j + 1)
    return rec(0, 0)
