"""Obligation = one contract function (+ concrete parameters) decided by the solver."""
from dataclasses import dataclass, field, asdict


@dataclass
class Obl:
    id: str                      # e.g. "C06.once.wed"
    module: str                  # "obligations.c06"
    func: str                    # contract function name
    params: dict = field(default_factory=dict)
    timeout: float = 60.0        # CrossHair per_condition_timeout (s)
    tier: str = "quick"          # "quick" obligations also run in the thorough tier
    twin: bool = True            # also run the vacuity twin (must be refuted)
    desc: str = ""               # what is asserted
    sym: str = ""                # symbolic variables and their bounds
    encodes: tuple = ()          # pyscript functions the obligation must reach (checked on twin replay)
    known: str = ""              # known-finding id this obligation is expected to hit (see known_findings.json)
    classifier: str = ""         # name of a module-level function (args, detail)->bool accepting only the known defect
    real_loop: bool = False      # replay tier 2 on a real asyncio loop with virtual clock
    engine: str = "crosshair"    # "crosshair" | "smt" (direct SMT-LIB, module.func(params) -> dict)
    path_timeout: float = 0.0    # 0 => max(30, timeout/4)

    def to_json(self):
        d = asdict(self)
        d["encodes"] = list(self.encodes)
        return d

    @staticmethod
    def from_json(d):
        d = dict(d)
        d["encodes"] = tuple(d.get("encodes", ()))
        return Obl(**d)
