"""usage: python -m vlib.replay '<json: {"obl":..., "args":[...], "kwargs":{...}, "mode":..., "real_loop":bool, "trace":bool}>'

Re-runs a contract function concretely, WITHOUT CrossHair in the process, against the real code.
Prints 'REPLAY {json}' with: ok (the function's verdict), exception, detail, functions reached.
exit 0 = verdict truthy, 1 = falsy or raised (counterexample reproduces), 3 = harness error.
"""
import sys, json, os, importlib, traceback

def main():
    job = json.loads(sys.argv[1])
    from vlib import ctx
    sys.path.insert(0, ctx.REPO)
    assert "crosshair" not in sys.modules
    import ast as _ast
    if "args_repr" in job:
        job["args"] = _ast.literal_eval(job["args_repr"]); job["kwargs"] = _ast.literal_eval(job.get("kwargs_repr", "{}"))
    o = job["obl"]
    ctx.PARAMS = o["params"]; ctx.MODE = job.get("mode", "check"); ctx.REAL_LOOP = bool(job.get("real_loop"))
    ctx.DETAIL.clear()
    reached = set()
    if job.get("trace"):
        root = os.path.join(os.path.realpath(ctx.REPO), "custom_components", "pyscript") + os.sep
        mon = sys.monitoring
        TOOL = 3
        mon.use_tool_id(TOOL, "verif-reach")
        def on_start(code, off):
            fn = code.co_filename
            if fn.startswith(root) and code.co_flags & 1:
                reached.add(fn[len(root):-3].replace(os.sep, ".") + "." + code.co_qualname)
            return mon.DISABLE
        mon.register_callback(TOOL, mon.events.PY_START, on_start)
        mon.set_events(TOOL, mon.events.PY_START)
    out = {"id": o["id"], "ok": None, "exception": None}
    code = 3
    try:
        m = importlib.import_module(o["module"])
        f = getattr(m, o["func"])
        try:
            r = f(*job.get("args", []), **job.get("kwargs", {}))
            out["ok"] = bool(r); code = 0 if r else 1
        except Exception as e:
            out["ok"] = False; out["exception"] = type(e).__name__ + ": " + str(e); out["tb"] = traceback.format_exc()[-2500:]; code = 1
    except BaseException as e:
        out["exception"] = "HARNESS " + type(e).__name__ + ": " + str(e); out["tb"] = traceback.format_exc()[-2500:]; code = 3
    if job.get("trace"):
        sys.monitoring.set_events(3, 0)
    try:
        out["detail"] = json.loads(json.dumps(ctx.DETAIL, default=repr))
    except Exception:
        out["detail"] = repr(ctx.DETAIL)
    out["reached"] = sorted(reached)
    print("REPLAY " + json.dumps(out), flush=True)
    sys.stdout.flush()
    os._exit(code)

if __name__ == "__main__":
    main()
