"""Parallel obligation runner: CrossHair workers -> verdicts -> concrete replay -> known findings -> evidence.

exit codes: 0 = every obligation discharged (or only listed known findings hit)
            1 = a replayed counterexample that known_findings.json does not list (VIOLATION line printed)
            2 = inconclusive / harness error (never expected on the unchanged tree)
"""
import ast, importlib, json, os, random, subprocess, sys, threading, time, queue

from .obl import Obl

VERIF = os.path.dirname(os.path.dirname(os.path.abspath(__file__)))
PY = os.path.join(VERIF, ".venv", "bin", "python")
EVDIR = os.environ.get("VERIF_EVIDENCE_DIR") or os.path.join(VERIF, "evidence")
NWORK = int(os.environ.get("VERIF_WORKERS", "0")) or min(16, os.cpu_count() or 4)
FAIL_STATES = ("POST_FAIL", "EXEC_ERR", "POST_ERR", "PRE_INVALID")


def log(*a):
    print(*a, flush=True)


# --------------------------------------------------------------------------- message parsing
def parse_call(message, func):
    """extract (args, kwargs) from CrossHair's 'when calling f(...)' text"""
    msg = message.replace("\n", " ")
    key = "when calling " + func + "("
    i = msg.find(key)
    if i < 0:
        return None
    j = i + len(key) - 1
    depth = 0; k = j; instr = None
    while k < len(msg):
        c = msg[k]
        if instr:
            if c == "\\": k += 1
            elif c == instr: instr = None
        elif c in "\"'": instr = c
        elif c in "([{": depth += 1
        elif c in ")]}":
            depth -= 1
            if depth == 0: break
        k += 1
    try:
        tree = ast.parse("f" + msg[j:k + 1], mode="eval")
        args = [ast.literal_eval(a) for a in tree.body.args]
        kwargs = {kw.arg: ast.literal_eval(kw.value) for kw in tree.body.keywords}
        return args, kwargs
    except Exception:
        return None


# --------------------------------------------------------------------------- subprocess helpers
def _env():
    e = dict(os.environ)
    e["PYTHONPATH"] = VERIF
    e["PYTHONHASHSEED"] = "0"
    e.setdefault("PYTHONDONTWRITEBYTECODE", "1")
    return e


class WorkerProc:
    """persistent worker: jobs are fed one at a time (one import of Home Assistant + CrossHair per worker, dynamic load balancing)"""
    def __init__(self):
        self.p = subprocess.Popen([PY, "-m", "vlib.worker"], stdin=subprocess.PIPE, stdout=subprocess.PIPE, stderr=subprocess.PIPE,
                                  text=True, env=_env(), cwd=VERIF, bufsize=1)
        self.err_tail = []
        threading.Thread(target=self._rd_err, daemon=True).start()

    def _rd_err(self):
        for line in self.p.stderr:
            self.err_tail.append(line); del self.err_tail[:-40]

    def run(self, job):
        """returns the RESULT dict or None if the worker died / exceeded its budget"""
        budget = float(job["obl"]["timeout"]) * 1.5 + 150
        timer = threading.Timer(budget, self.p.kill); timer.start()
        try:
            self.p.stdin.write(json.dumps(job) + "\n"); self.p.stdin.flush()
            for line in self.p.stdout:
                if line.startswith("RESULT "):
                    return json.loads(line[7:])
            return None
        except (BrokenPipeError, OSError):
            return None
        finally:
            timer.cancel()

    def alive(self):
        return self.p.poll() is None

    def close(self):
        try:
            self.p.stdin.close()
        except Exception:
            pass
        try:
            self.p.wait(timeout=10)
        except Exception:
            self.p.kill()

    def err(self):
        return "".join(self.err_tail)[-1500:]


_REPLAY_CACHE = {}


def _rkey(obl, args, kwargs, mode, real_loop, trace):
    return repr((obl.id, obl.func, repr(list(args)), repr(dict(kwargs)), mode, bool(real_loop), bool(trace)))


def run_replay(obl, args, kwargs, mode="check", real_loop=False, trace=False, timeout=600):
    k = _rkey(obl, args, kwargs, mode, real_loop, trace)
    if k in _REPLAY_CACHE:
        return _REPLAY_CACHE[k]
    r = _run_replay(obl, args, kwargs, mode, real_loop, trace, timeout)
    _REPLAY_CACHE[k] = r
    return r


def prefetch_replays(obls, results):
    """run all replays that the verdict phase will need, in parallel"""
    from concurrent.futures import ThreadPoolExecutor
    todo = []
    for o in obls:
        r = results.get((o.id, "check"))
        if r and not r.get("error"):
            if o.engine == "smt":
                if r.get("verdict") == "sat":
                    ro = Obl.from_json(o.to_json()); ro.func = o.func + "_replay"
                    todo.append((ro, r.get("witness_args", []), {}, "check", False, False))
            else:
                m = [m for m in r["messages"] if m["state"] in FAIL_STATES]
                if m:
                    c = parse_call(m[0]["message"], o.func)
                    if c:
                        todo.append((o, c[0], c[1], "check", False, False))
                        if o.real_loop:
                            todo.append((o, c[0], c[1], "check", True, False))
        tr = results.get((o.id, "twin"))
        if o.twin and tr and not tr.get("error"):
            m = [m for m in tr["messages"] if m["state"] in FAIL_STATES]
            if m:
                c = parse_call(m[0]["message"], o.func)
                if c:
                    todo.append((o, c[0], c[1], "twin", False, True))
    with ThreadPoolExecutor(NWORK) as ex:
        list(ex.map(lambda t: run_replay(*t), todo))


def _run_replay(obl, args, kwargs, mode="check", real_loop=False, trace=False, timeout=600):
    job = {"obl": obl.to_json(), "args_repr": repr(list(args)), "kwargs_repr": repr(dict(kwargs)), "mode": mode, "real_loop": real_loop, "trace": trace}
    try:
        p = subprocess.run([PY, "-m", "vlib.replay", json.dumps(job)], capture_output=True, text=True, env=_env(), cwd=VERIF, timeout=timeout)
    except subprocess.TimeoutExpired:
        return 3, {"exception": "replay timeout"}
    info = {}
    for line in p.stdout.splitlines():
        if line.startswith("REPLAY "):
            info = json.loads(line[7:])
    if not info:
        info = {"exception": "no replay output", "stderr": p.stderr[-1500:]}
        return 3, info
    return p.returncode, info


# --------------------------------------------------------------------------- known findings
def load_findings():
    path = os.path.join(VERIF, "known_findings.json")
    if not os.path.exists(path):
        return {}
    data = json.load(open(path))
    return {f["id"]: f for f in data.get("findings", [])}


# --------------------------------------------------------------------------- main entry
def check_property(pid, tier, seed, only=None):
    t_start = time.time()
    mod = importlib.import_module("obligations." + pid.lower())
    obls = [o for o in mod.obligations(tier) if tier == "thorough" or o.tier == "quick"]
    if only:
        obls = [o for o in obls if any(s in o.id for s in only)]
    ids = [o.id for o in obls]
    assert len(ids) == len(set(ids)), "duplicate obligation ids"
    findings = load_findings()
    level = getattr(mod, "LEVEL", "model_checking")
    problems = []      # inconclusive / harness errors  -> exit 2
    violations = []    # (obl, args, info, replay path)  -> exit 1
    known_hits = []
    results = {}       # (id, mode) -> worker result
    byid = {o.id: o for o in obls}

    # ---- preflight: shim self-tests / conformance battery (concrete, no CrossHair)
    pre = getattr(mod, "preflight", None)
    pre_info = None
    if pre is not None:
        po = Obl(id=pid + ".preflight", module=mod.__name__, func="preflight")
        code, info = run_replay(po, [], {}, timeout=900)
        pre_info = info.get("detail")
        if code != 0:
            problems.append(f"{pid}.preflight failed: {info.get('exception')} {info.get('detail')} {info.get('tb', '')[-800:]}")
            log("INCONCLUSIVE", problems[-1])

    # ---- schedule
    jobs = []
    for o in obls:
        jobs.append({"obl": o.to_json(), "mode": "check"})
        if o.twin:
            jobs.append({"obl": o.to_json(), "mode": "twin"})
    rnd = random.Random(seed)
    rnd.shuffle(jobs)
    jobs.sort(key=lambda j: -float(j["obl"]["timeout"]))      # longest budgets first
    q = queue.Queue()
    for jb in jobs:
        q.put((jb, 0))
    lock = threading.Lock()

    def on_result(r):
        with lock:
            results[(r["id"], r["mode"])] = r

    def work():
        wp = None
        try:
            while True:
                try:
                    jb, attempt = q.get_nowait()
                except queue.Empty:
                    return
                if wp is None or not wp.alive():
                    wp = WorkerProc()
                r = wp.run(jb)
                if r is not None:
                    on_result(r); continue
                err = wp.err(); wp.close(); wp = None
                if attempt == 0:
                    q.put((jb, 1))
                else:
                    on_result({"id": jb["obl"]["id"], "mode": jb["mode"], "messages": [], "error": "worker died/timeout: " + err,
                               "paths": 0, "nontrivial": 0, "solver": {}, "wall_s": 0})
        finally:
            if wp is not None:
                wp.close()

    threads = [threading.Thread(target=work) for _ in range(min(NWORK, max(1, q.qsize())))]
    for t in threads: t.start()
    for t in threads: t.join()
    while not q.empty():          # re-queued jobs whose thread had already exited
        work()

    prefetch_replays(obls, results)

    # ---- verdicts
    discharged = 0
    samples = []
    reached_all = set()
    per_obl = []
    total_paths = total_nontrivial = 0
    solver_checks = 0; solver_time = 0.0; cpu_s = 0.0
    n_replayed = 0
    for o in obls:
        r = results.get((o.id, "check"))
        entry = {"id": o.id, "function": o.module + "." + o.func, "params": o.params, "asserts": o.desc, "symbolic": o.sym,
                 "timeout_s": o.timeout, "tier": o.tier}
        per_obl.append(entry)
        if r is None:
            problems.append(f"{o.id}: no result"); entry["verdict"] = "INCONCLUSIVE"; continue
        total_paths += r.get("paths", 0); total_nontrivial += r.get("nontrivial", 0)
        solver_checks += r.get("solver", {}).get("checks", 0); solver_time += r.get("solver", {}).get("time_s", 0.0); cpu_s += r.get("wall_s", 0)
        entry.update(paths=r.get("paths", 0), nontrivial_paths=r.get("nontrivial", 0), solver=r.get("solver"), wall_s=r.get("wall_s"))
        if o.engine == "smt":
            v = r.get("verdict")
            entry["smt"] = {k: r.get(k) for k in ("queries", "solver_cmd", "note") if k in r}
            if r.get("error"):
                problems.append(f"{o.id}: {r['error'][:500]}"); entry["verdict"] = "INCONCLUSIVE"; continue
            if v == "unsat":
                discharged += 1; entry["verdict"] = "DISCHARGED"; continue
            if v != "sat":
                problems.append(f"{o.id}: solver answered {v}"); entry["verdict"] = "INCONCLUSIVE"; continue
            states = ["POST_FAIL"]; cex = (r.get("witness_args", []), {})
        else:
            states = [m["state"] for m in r["messages"]]
            cex = None
        if r.get("error"):
            problems.append(f"{o.id}: worker error {r['error'][:600]}"); entry["verdict"] = "INCONCLUSIVE"; continue
        if o.engine != "smt" and states and all(s == "CONFIRMED" for s in states):
            discharged += 1; entry["verdict"] = "DISCHARGED"
        elif any(s in FAIL_STATES for s in states):
            if cex is None:
                m = [m for m in r["messages"] if m["state"] in FAIL_STATES][0]
                cex = parse_call(m["message"], o.func)
                entry["message"] = m["message"][:400]
                if cex is None:
                    problems.append(f"{o.id}: cannot parse counterexample: {m['message'][:300]} {m.get('traceback', '')[-600:]}")
                    entry["verdict"] = "INCONCLUSIVE"; continue
            args, kwargs = cex
            n_replayed += 1
            ro = o
            if o.engine == "smt":
                ro = Obl.from_json(o.to_json()); ro.func = o.func + "_replay"
            code, info = run_replay(ro, args, kwargs)
            if code == 1 and o.real_loop:
                code2, info2 = run_replay(o, args, kwargs, real_loop=True)
                info["real_loop"] = {"code": code2, "exception": info2.get("exception"), "detail": info2.get("detail")}
                if code2 == 0:
                    problems.append(f"{o.id}: counterexample {args} fails on the harness scheduler but not on the real asyncio loop (stub defect)")
                    entry["verdict"] = "STUB-DEFECT"; continue
                if code2 != 1:
                    problems.append(f"{o.id}: real-loop replay error {info2.get('exception')} {info2.get('tb', '')[-500:]}")
                    entry["verdict"] = "INCONCLUSIVE"; continue
            if code == 0:
                problems.append(f"{o.id}: counterexample {args} {kwargs} does not reproduce without CrossHair (encoding defect)")
                entry["verdict"] = "NOT-REPRODUCED"; continue
            if code != 1:
                problems.append(f"{o.id}: replay error {info.get('exception')} {info.get('tb', '')[-800:]}")
                entry["verdict"] = "INCONCLUSIVE"; continue
            # reproduced: known finding or violation?
            entry["counterexample"] = {"args": args, "kwargs": kwargs, "detail": info.get("detail"), "exception": info.get("exception")}
            fid = o.known
            accepted = False
            if fid and fid in findings and findings[fid].get("status") == "known":
                accepted = True
                if o.classifier:
                    try:
                        accepted = bool(getattr(mod, o.classifier)(args, info.get("detail") or {}, info))
                    except Exception as e:  # classifier failure = not accepted
                        accepted = False
            if accepted:
                entry["verdict"] = "KNOWN-FINDING"; entry["finding"] = fid
                known_hits.append((fid, findings[fid], args, info))
            else:
                entry["verdict"] = "VIOLATION"
                os.makedirs(os.path.join(EVDIR, "replay"), exist_ok=True)
                rp = os.path.join(EVDIR, "replay", o.id + ".json")
                json.dump({"property": pid, "obligation": o.to_json(), "args": repr(list(args)), "kwargs": repr(dict(kwargs)), "replay": info,
                           "crosshair_message": entry.get("message")}, open(rp, "w"), indent=1, default=repr)
                violations.append((o, args, info, rp))
        else:
            detail = "; ".join(f"{m['state']}: {m['message'][:200]}" for m in r["messages"]) or "no messages"
            problems.append(f"{o.id}: not decided within {o.timeout}s ({detail})"); entry["verdict"] = "INCONCLUSIVE"
        # ---- twin
        if o.twin:
            tr = results.get((o.id, "twin"))
            if tr is None or tr.get("error"):
                problems.append(f"{o.id}: twin produced no result {tr and tr.get('error', '')[:400]}"); continue
            cpu_s += tr.get("wall_s", 0)
            tstates = [m["state"] for m in tr["messages"]]
            if tstates and all(s == "CONFIRMED" for s in tstates):
                problems.append(f"{o.id}: VACUOUS - the twin ('the interesting observation never happens') was confirmed")
                entry["twin"] = "VACUOUS"; continue
            tm = [m for m in tr["messages"] if m["state"] in FAIL_STATES]
            if not tm:
                problems.append(f"{o.id}: twin undecided ({tstates})"); entry["twin"] = "UNDECIDED"; continue
            tc = parse_call(tm[0]["message"], o.func)
            if tc is None:
                problems.append(f"{o.id}: cannot parse twin witness {tm[0]['message'][:300]}"); continue
            code, info = run_replay(o, tc[0], tc[1], mode="twin", trace=True)
            if code != 1 or info.get("exception"):
                problems.append(f"{o.id}: twin witness {tc} does not replay as a non-trivial passing run ({code}, {info.get('exception')})")
                entry["twin"] = "NOT-REPRODUCED"; continue
            entry["twin"] = "REFUTED"; entry["witness"] = {"args": tc[0], "kwargs": tc[1]}
            reached = set(info.get("reached", []))
            reached_all |= reached
            miss = [f for f in o.encodes if f not in reached]
            if miss:
                problems.append(f"{o.id}: claimed functions not reached on the witness run: {miss}")
            if len(samples) < 12:
                samples.append({"obligation": o.id, "witness_args": tc[0], "witness_kwargs": tc[1], "observed": info.get("detail")})

    # ---- report
    seen_f = {}
    for fid, f, args, info in known_hits:
        seen_f.setdefault(fid, []).append(args)
    for fid, wl in seen_f.items():
        log(f"KNOWN-FINDING: property={pid} {fid}: {findings[fid].get('what', '')} [reproduced by {len(wl)} obligation(s); first witness {wl[0]}]")
    for o, args, info, rp in violations:
        log(f"VIOLATION property={pid} replay={rp}")
        log(f"  obligation {o.id}: {o.desc}")
        log(f"  counterexample args={args} detail={json.dumps(info.get('detail'), default=repr)[:800]} exception={info.get('exception')}")
    for p in problems:
        log("INCONCLUSIVE", p)

    wall = time.time() - t_start
    if not samples:
        samples = [{"obligation": e["id"], "asserts": e["asserts"], "symbolic": e["symbolic"]} for e in per_obl[:5]]
    cov = {
        "obligations": len(obls), "discharged": discharged,
        "evaluations": max(total_paths, 0), "distinct_nontrivial": total_nontrivial,
        "rule": "evaluations = symbolic execution paths of the contract functions completed under CrossHair (each path is one equivalence class of inputs, decided by z3); "
                "a path is non-trivial when the harness flag says the observation of interest occurred on it (a run recorded, a frame decoded, a context deleted ...); "
                "paths are distinct by construction (different branch decisions)",
        "samples": samples,
        "explanation": getattr(mod, "EXPLANATION", ""),
        "exhaustive": False,
        "functions_encoded": sorted(reached_all),
        "bounds": getattr(mod, "BOUNDS", {}).get(tier, getattr(mod, "BOUNDS", {})) if isinstance(getattr(mod, "BOUNDS", None), dict) else getattr(mod, "BOUNDS", ""),
        "outside_claim": getattr(mod, "OUTSIDE", ""),
        "solver": {"engine": "z3 %s via crosshair-tool 0.0.110" % _z3v(), "queries": solver_checks, "solver_time_s": round(solver_time, 2), "worker_cpu_s": round(cpu_s, 1)},
        "counterexamples_replayed": n_replayed,
        "known_findings_hit": [k[0] for k in known_hits],
        "obligation_list": per_obl,
        "preflight": pre_info,
        "inconclusive": problems,
    }
    if level == "translation_validation":
        cov["programs"] = getattr(mod, "count_programs", lambda obls: len(obls))(obls)
        cov["disagreements_checked"] = n_replayed
    ev = {"property_id": pid, "tier": tier, "seed": seed, "level": level, "coverage": cov,
          "assumptions": list(getattr(mod, "ASSUMPTIONS", [])) + COMMON_ASSUMPTIONS,
          "wall_s": round(wall, 2), "violations": len(violations)}
    os.makedirs(EVDIR, exist_ok=True)
    json.dump(ev, open(os.path.join(EVDIR, pid + ".json"), "w"), indent=1, default=repr)
    log(f"{pid} tier={tier}: obligations={len(obls)} discharged={discharged} known={len(known_hits)} violations={len(violations)} "
        f"inconclusive={len(problems)} paths={total_paths} solver_queries={solver_checks} wall={wall:.1f}s")
    if violations:
        return 1
    if problems:
        return 2
    return 0


def _z3v():
    try:
        out = subprocess.run([PY, "-c", "import z3;print(z3.get_version_string())"], capture_output=True, text=True, timeout=60)
        return out.stdout.strip()
    except Exception:
        return "?"


COMMON_ASSUMPTIONS = [
    "CrossHair 0.0.110 + z3 are sound for the Python operations executed symbolically (int, bool, str, real-valued float)",
    "Python floats are modelled as reals in CrossHair obligations (IEEE effects handled only where an E2/SMT lemma says so)",
    "environment stubs listed in DESIGN.md section 3 behave as documented (Home Assistant core, asyncio primitives, clock)",
    "verdicts hold only inside the bounds listed per obligation (coverage.obligation_list[*].symbolic / coverage.bounds)",
]


def _lit(x):
    return ast.literal_eval(x) if isinstance(x, str) else x


def replay_file(path):
    d = json.load(open(path))
    o = Obl.from_json(d["obligation"])
    code, info = run_replay(o, _lit(d["args"]), _lit(d.get("kwargs", {})))
    log(f"replay of {o.id} with args={d['args']}: verdict={'holds' if code == 0 else 'FAILS' if code == 1 else 'harness error'}")
    log(json.dumps(info, indent=1, default=repr)[:4000])
    return 1 if code == 1 else (0 if code == 0 else 2)


def main(argv=None):
    import argparse
    ap = argparse.ArgumentParser()
    ap.add_argument("pid")
    ap.add_argument("--tier", default=os.environ.get("VERIF_TIER", "quick"), choices=["quick", "thorough"])
    ap.add_argument("--replay")
    ap.add_argument("--only", action="append")
    a = ap.parse_args(argv)
    if a.replay:
        sys.exit(replay_file(a.replay))
    seed = int(os.environ.get("VERIF_SEED", "0") or 0)
    sys.exit(check_property(a.pid.upper(), a.tier, seed, a.only))


if __name__ == "__main__":
    main()
