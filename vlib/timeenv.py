"""Environment for TrigTime's pure time functions: integer-microsecond datetime shim under CrossHair,
the standard library datetime in plain replay; real astral location; English day names."""
import datetime as rdt
import sys

from . import ctx, vdt
from .base import run, symbolic_mode, HASS
from custom_components.pyscript import trigger
from custom_components.pyscript.trigger import TrigTime
from homeassistant.helpers import sun as _sun

EPOCH = rdt.datetime(2000, 1, 1)
DAY = vdt.DAY


class Cfg:
    latitude = 38; longitude = -122; elevation = 0; time_zone = "America/Los_Angeles"
    def path(self, *p): return "/cfg/" + "/".join(p)


def ord2us(date):
    return (date.toordinal() - EPOCH.toordinal()) * DAY


def us2real(us):
    return EPOCH + rdt.timedelta(microseconds=int(us))


def real2us(r):
    return (r - EPOCH) // rdt.timedelta(microseconds=1)


_loc_cache = {}


def astral_loc():
    if "loc" not in _loc_cache:
        HASS.config = Cfg()
        loc = _sun.get_astral_location(HASS)
        _loc_cache["loc"] = loc[0] if isinstance(loc, tuple) else loc
    return _loc_cache["loc"]


def sun_us(kind, date):
    """sunrise/sunset of a concrete date as naive microseconds (what pyscript uses: hour/minute/second of astral's local time)"""
    r = getattr(astral_loc(), kind)(date)
    return ord2us(r.date()) + ((r.hour * 60 + r.minute) * 60 + r.second) * 10**6


class VLoc:
    def _conv(self, f, vd):
        d = rdt.date.fromordinal(vd.ord); r = f(d)
        return vdt.datetime(r.year, r.month, r.day, r.hour, r.minute, r.second, r.microsecond)
    def sunrise(self, vd): return self._conv(astral_loc().sunrise, vd)
    def sunset(self, vd): return self._conv(astral_loc().sunset, vd)


class TimeEnv:
    """with TimeEnv() as te: te.next(spec, now_us, start_us) / te.active(spec, now_us, start_us)"""
    def __enter__(self):
        self.saved = [(trigger, k, trigger.__dict__.get(k)) for k in ("dt", "math", "sun")]
        self.saved_dow = dict(TrigTime.dow2int); self.saved_hass = TrigTime.hass
        HASS.config = Cfg()
        async def _exec(f, *a): return f(*a)
        HASS.async_add_executor_job = _exec
        TrigTime.hass = HASS
        for i, n in enumerate(["sunday", "monday", "tuesday", "wednesday", "thursday", "friday", "saturday"]):
            TrigTime.dow2int[n] = i; TrigTime.dow2int[n[:3]] = i
        self.sym = symbolic_mode()
        if self.sym:
            astral_loc()
            trigger.dt = vdt; trigger.math = vdt.vmath
            trigger.sun = type("S", (), {"get_astral_location": staticmethod(lambda h: VLoc())})
        return self
    def __exit__(self, *a):
        for m, k, v in self.saved:
            setattr(m, k, v)
        TrigTime.dow2int.clear(); TrigTime.dow2int.update(self.saved_dow); TrigTime.hass = self.saved_hass
    def mk(self, us):
        return vdt.datetime._mk(us) if self.sym else us2real(us)
    def us(self, d):
        if d is None: return None
        return d.us if self.sym else real2us(d)
    def next(self, spec, now_us, start_us):
        nt, adj = run(TrigTime.timer_trigger_next(spec, self.mk(now_us), self.mk(start_us)))
        return self.us(nt), self.us(adj)
    def active(self, spec, now_us, start_us):
        return run(TrigTime.timer_active_check(spec, self.mk(now_us), self.mk(start_us)))
    def parse(self, s, day_offset, now_us, start_us):
        r, fixed = run(TrigTime.parse_date_time(s, day_offset, self.mk(now_us), self.mk(start_us)))
        return self.us(r), fixed
