"""Abstract byte strings with symbolic lengths: a list of chunks.
chunk = ("lit", v) one byte with int value v | ("be", width, n) big-endian int | ("blob", bid, off, ln) bytes off..off+ln of opaque blob bid
"""
import builtins
class VB:
    def __init__(self, chunks=()):
        self.ch = [c for c in chunks if not (c[0] == "blob" and _is0(c[3]))]
    def vlen(self):
        n = 0
        for c in self.ch:
            n = n + (1 if c[0] == "lit" else c[1] if c[0] == "be" else c[3])
        return n
    def __add__(self, o): return VB(self.ch + _tovb(o).ch)
    def __radd__(self, o): return VB(_tovb(o).ch + self.ch)
    __iadd__ = __add__
    def split(self, k):
        """return (first k bytes, rest); k symbolic allowed; forks on chunk boundaries"""
        head = []; rest = list(self.ch); need = k
        while rest:
            if need == 0: break
            c = rest[0]; ln = 1 if c[0] == "lit" else c[1] if c[0] == "be" else c[3]
            if ln <= need:
                head.append(c); rest.pop(0); need = need - ln
            else:
                if c[0] == "blob":
                    head.append(("blob", c[1], c[2], need)); rest[0] = ("blob", c[1], c[2] + need, c[3] - need); need = 0
                elif c[0] == "be":
                    # split int field into literal bytes
                    lits = [("lit", (c[2] // (256 ** (c[1] - 1 - i))) % 256) for i in range(c[1])]
                    rest = lits + rest[1:]
                else:
                    raise AssertionError
        if need != 0: raise IndexError("short")
        return VB(head), VB(rest)
    def __getitem__(self, i):
        if isinstance(i, slice):
            assert i.step is None
            a = 0 if i.start is None else i.start
            _, r = self.split(a)
            if i.stop is None: return r
            h, _ = r.split(i.stop - a)
            return h
        _, r = self.split(i); h, _ = r.split(1); c = h.ch[0]
        if c[0] == "lit": return c[1]
        raise AssertionError("opaque byte read")
    def norm(self):
        out = []
        for c in self.ch:
            if out and c[0] == "blob" and out[-1][0] == "blob" and out[-1][1] == c[1] and out[-1][2] + out[-1][3] == c[2]:
                out[-1] = ("blob", c[1], out[-1][2], out[-1][3] + c[3])
            else: out.append(c)
        return out
def _is0(x): return isinstance(x, int) and x == 0
def _tovb(o):
    if isinstance(o, VB): return o
    return VB([("lit", b) for b in builtins.bytes(o)])
def vlen(o): return o.vlen() if isinstance(o, VB) else builtins.len(o)
def vbytearray(x=()):
    out = []
    for v in x:
        if not (0 <= v <= 255): raise ValueError("byte must be in range(0, 256)")
        out.append(("lit", v))
    return VB(out)
def vpack(fmt, n):
    w = {">Q": 8, ">L": 4}[fmt]
    if not (0 <= n < 256 ** w): raise OverflowError
    return VB([("be", w, n)])
def vunpack(fmt, b):
    w = {">Q": 8, ">L": 4}[fmt]
    ch = b.norm() if isinstance(b, VB) else _tovb(b).ch
    if len(ch) == 1 and ch[0][0] == "be" and ch[0][1] == w: return (ch[0][2],)
    assert all(c[0] == "lit" for c in ch) and len(ch) == w
    n = 0
    for c in ch: n = n * 256 + c[1]
    return (n,)
