"""Integer-microsecond model of datetime/timedelta/date (subset used by pyscript)."""
import datetime as _dt
import math
_EPOCH = _dt.datetime(2000, 1, 1)
DAY = 86400 * 10**6

def _rint(x):
    # round-half-even of a number to int (concrete or symbolic)
    if isinstance(x, int):
        return x
    f = math.floor(x)
    r = x - f
    if r > 0.5 or (r == 0.5 and f % 2 == 1):
        return int(f) + 1
    return int(f)

from fractions import Fraction as _F
class VNum:
    """exact rational num/den (den concrete positive int); stands in for a float number of seconds"""
    __slots__ = ("n", "d")
    def __init__(self, n, d=1):
        self.n = n; self.d = d
    @staticmethod
    def of(x):
        if isinstance(x, VNum): return x
        if isinstance(x, float):
            f = _F(x); return VNum(f.numerator, f.denominator)
        return VNum(x, 1)
    def __truediv__(self, o):
        o = VNum.of(o)
        if isinstance(o.n, int) and o.n < 0: return VNum(-self.n * o.d, self.d * -o.n)
        return VNum(self.n * o.d, self.d * o.n)      # o.n must be concrete positive
    def __mul__(self, o): o = VNum.of(o); return VNum(self.n * o.n, self.d * o.d)
    __rmul__ = __mul__
    def __add__(self, o): o = VNum.of(o); return VNum(self.n * o.d + o.n * self.d, self.d * o.d)
    __radd__ = __add__
    def __sub__(self, o): o = VNum.of(o); return VNum(self.n * o.d - o.n * self.d, self.d * o.d)
    def __rsub__(self, o): return VNum.of(o).__sub__(self)
    def __neg__(self): return VNum(-self.n, self.d)
    def __floor__(self): return VNum(self.n // self.d, 1)
    def _cmp(self, o): o = VNum.of(o); return self.n * o.d - o.n * self.d
    def __lt__(self, o): return self._cmp(o) < 0
    def __le__(self, o): return self._cmp(o) <= 0
    def __gt__(self, o): return self._cmp(o) > 0
    def __ge__(self, o): return self._cmp(o) >= 0
    def __eq__(self, o): return isinstance(o, (VNum, int, float)) and self._cmp(o) == 0
    def __ne__(self, o): return not self.__eq__(o)
    def __hash__(self): return hash((self.n, self.d))
    def __float__(self): return float(self.n) / float(self.d)
    def __repr__(self): return f"VNum({self.n}/{self.d})"
    def to_us(self):
        # round half even of n*1e6/d
        num = self.n * 10**6; q = num // self.d; r = num - q * self.d
        if 2 * r > self.d or (2 * r == self.d and q % 2 == 1): return q + 1
        return q

class timedelta:
    __slots__ = ("us",)
    def __init__(self, days=0, seconds=0, microseconds=0, milliseconds=0, minutes=0, hours=0, weeks=0):
        if isinstance(seconds, VNum):
            self.us = ((weeks * 7 + days) * 86400 + hours * 3600 + minutes * 60) * 10**6 + milliseconds * 1000 + microseconds + seconds.to_us()
            return
        if isinstance(seconds, float):
            seconds = VNum.of(seconds)
            self.us = _rint(((weeks * 7 + days) * 86400 + hours * 3600 + minutes * 60) * 10**6 + milliseconds * 1000 + microseconds) + seconds.to_us()
            return
        tot = ((weeks * 7 + days) * 86400 + hours * 3600 + minutes * 60 + seconds) * 10**6 + milliseconds * 1000 + microseconds
        self.us = _rint(tot)
    @classmethod
    def _mk(cls, us):
        o = object.__new__(cls); o.us = us; return o
    @property
    def days(self): return self.us // DAY
    def total_seconds(self): return VNum(self.us, 10**6)
    def __add__(self, o):
        if isinstance(o, timedelta): return timedelta._mk(self.us + o.us)
        return NotImplemented
    def __sub__(self, o):
        if isinstance(o, timedelta): return timedelta._mk(self.us - o.us)
        return NotImplemented
    def __neg__(self): return timedelta._mk(-self.us)
    def __eq__(self, o): return isinstance(o, timedelta) and self.us == o.us
    def __ne__(self, o): return not self.__eq__(o)
    def __lt__(self, o): return self.us < o.us
    def __le__(self, o): return self.us <= o.us
    def __gt__(self, o): return self.us > o.us
    def __ge__(self, o): return self.us >= o.us
    def __hash__(self): return hash(self.us)
    def __repr__(self): return f"vtimedelta(us={self.us})"

class date:
    __slots__ = ("ord",)
    def __init__(self, year, month, day):
        self.ord = _dt.date(int(year), int(month), int(day)).toordinal()
    def __sub__(self, o): return timedelta._mk((self.ord - o.ord) * DAY)
    def __eq__(self, o): return isinstance(o, date) and self.ord == o.ord
    def __repr__(self): return f"vdate({_dt.date.fromordinal(self.ord)})"

class datetime:
    """instant = us microseconds since 2000-01-01 (naive)."""
    __slots__ = ("us",)
    def __init__(self, year, month, day, hour=0, minute=0, second=0, microsecond=0):
        d = _dt.date(int(year), int(month), int(day)).toordinal() - _EPOCH.toordinal()
        self.us = d * DAY + ((hour * 60 + minute) * 60 + second) * 10**6 + microsecond
    @classmethod
    def _mk(cls, us):
        o = object.__new__(cls); o.us = us; return o
    @classmethod
    def from_real(cls, r):
        return cls._mk(int((r - _EPOCH) / _dt.timedelta(microseconds=1)))
    def to_real(self):
        return _EPOCH + _dt.timedelta(microseconds=int(self.us))
    def _dayidx(self):
        return int(self.us // DAY)       # realizes the day index (forks under CrossHair)
    def _d(self): return _dt.date.fromordinal(_EPOCH.toordinal() + self._dayidx())
    @property
    def year(self): return self._d().year
    @property
    def month(self): return self._d().month
    @property
    def day(self): return self._d().day
    @property
    def hour(self): return (self.us % DAY) // (3600 * 10**6)
    @property
    def minute(self): return (self.us % (3600 * 10**6)) // (60 * 10**6)
    @property
    def second(self): return (self.us % (60 * 10**6)) // 10**6
    @property
    def microsecond(self): return self.us % 10**6
    def isoweekday(self): return self._d().isoweekday()
    def date(self):
        d = self._d(); return date(d.year, d.month, d.day)
    def __add__(self, o):
        if isinstance(o, timedelta): return datetime._mk(self.us + o.us)
        return NotImplemented
    __radd__ = __add__
    def __sub__(self, o):
        if isinstance(o, timedelta): return datetime._mk(self.us - o.us)
        if isinstance(o, datetime): return timedelta._mk(self.us - o.us)
        return NotImplemented
    def __eq__(self, o): return isinstance(o, datetime) and self.us == o.us
    def __ne__(self, o): return not self.__eq__(o)
    def __lt__(self, o): return self.us < o.us
    def __le__(self, o): return self.us <= o.us
    def __gt__(self, o): return self.us > o.us
    def __ge__(self, o): return self.us >= o.us
    def __hash__(self): return hash(self.us)
    def __repr__(self): return f"vdatetime({self.to_real() if isinstance(self.us, int) else self.us})"


class vmath:
    """stand-in for the `math` module in trigger.py: floor honours VNum (CrossHair's math.floor realises non-floats)"""
    import math as _m
    @staticmethod
    def floor(x):
        return x.__floor__() if isinstance(x, VNum) else vmath._m.floor(x)
    def __getattr__(self, n):
        return getattr(vmath._m, n)


def _vnum_extra():
    def __rtruediv__(self, o): return VNum.of(o).__truediv__(self)
    def __abs__(self): return self if self >= 0 else -self
    def __pos__(self): return self
    def __bool__(self):
        if self.n != 0: return True
        return False
    def __int__(self): return int(self.n // self.d) if self.n >= 0 else -int((-self.n) // self.d)
    def __round__(self, nd=None):
        if nd is None:
            return VNum(self.n * 10**6, self.d).to_us() // 10**6 if False else _rint(float(self))
        return float(round(float(self), nd))
    for k, v in list(locals().items()):
        setattr(VNum, k, v)


_vnum_extra()
