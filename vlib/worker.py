"""usage: python -m vlib.worker  (reads a JSON list of jobs on stdin; prints one 'RESULT {json}' line per job)

job = {"obl": <Obl json>, "mode": "check"|"twin"}
Runs each obligation's contract function under CrossHair (patched, see chpatch) and reports the
messages, the number of explored paths and the solver statistics.
"""
import sys, json, time, os, importlib, traceback

def main():
    from vlib import ctx
    sys.path.insert(0, ctx.REPO)
    from vlib import chpatch
    from crosshair.core import analyze_function, run_checkables, AnalysisOptionSet
    print("READY", flush=True)
    for line in sys.stdin:            # one JSON job per line; the runner feeds the next job when a RESULT arrives
        line = line.strip()
        if not line:
            continue
        job = json.loads(line)
        o = job["obl"]
        t0 = time.time()
        out = {"id": o["id"], "mode": job["mode"], "messages": [], "error": None}
        try:
            ctx.PARAMS = o["params"]; ctx.MODE = job["mode"]; ctx.REAL_LOOP = False
            ctx.STATS["paths"] = 0; ctx.STATS["nontrivial"] = 0
            for k in chpatch.SOLVER_STATS: chpatch.SOLVER_STATS[k] = 0
            m = importlib.import_module(o["module"])
            import gc
            gc.collect(); gc.freeze()          # everything imported so far is permanent: later collections only look at what a path allocates
            if o.get("engine") == "smt":
                res = getattr(m, o["func"])(o["params"])
                out.update(res)
            else:
                f = getattr(m, o["func"])
                tmo = float(o["timeout"])
                ptmo = float(o.get("path_timeout") or 0) or max(30.0, tmo / 4)
                opts = AnalysisOptionSet(per_condition_timeout=tmo, per_path_timeout=ptmo, report_all=True, max_uninteresting_iterations=10**9)
                for msg in run_checkables(analyze_function(f, opts)):
                    out["messages"].append({"state": msg.state.name, "message": msg.message, "line": msg.line,
                                            "traceback": (msg.traceback or "")[-3000:]})
        except BaseException as e:  # noqa - report and continue with the next job
            tb = traceback.format_exc()
            out["error"] = type(e).__name__ + ": " + str(e) + "\n" + (tb if len(tb) < 5000 else tb[:2500] + "\n ...\n" + tb[-2500:])
            if isinstance(e, KeyboardInterrupt):
                raise
        out["paths"] = ctx.STATS["paths"]; out["nontrivial"] = ctx.STATS["nontrivial"]
        out["solver"] = {k: (round(v, 3) if isinstance(v, float) else v) for k, v in chpatch.SOLVER_STATS.items()}
        out["wall_s"] = round(time.time() - t0, 2)
        print("RESULT " + json.dumps(out), flush=True)

if __name__ == "__main__":
    main()
