"""Full-stack environment: stub Home Assistant + deterministic scheduler + virtual clock.
pyscript itself (async_setup_entry, State, Event, Function, trigger loops, decorators, AstEval) is the real code.

Two interchangeable back ends:
  World      - harness scheduler (symbolic execution runs on this one; asyncio's C parts are not traceable)
  RealWorld  - genuine asyncio SelectorEventLoop whose selector advances a virtual clock (replay tier 2 / conformance)
Use mkworld(legacy) which picks according to ctx.REAL_LOOP.
"""
import asyncio, selectors, sys, types, logging
from collections import deque
from . import ctx
if ctx.REPO not in sys.path:
    sys.path.insert(0, ctx.REPO)
import custom_components.pyscript as pys
from custom_components.pyscript import trigger
from custom_components.pyscript.decorators import state as dstate, timing as dtiming
from custom_components.pyscript.const import DOMAIN, CONFIG_ENTRY
from custom_components.pyscript.function import Function
from custom_components.pyscript.state import State
from custom_components.pyscript.event import Event
from custom_components.pyscript.mqtt import Mqtt
from custom_components.pyscript.webhook import Webhook
from custom_components.pyscript.eval import AstEval
from custom_components.pyscript.global_ctx import GlobalContext, GlobalContextMgr
from homeassistant.core import State as CoreState, Context, Event as HAEvent
from . import vdt

import os as _os
_DEBUG = bool(_os.environ.get("VERIF_DEBUG"))
T0 = 1000 * 10**6   # virtual clock start in MICROSECONDS (must be > 0: TimeActiveDecorator uses last_trig_time > 0.0 as "never")
BASE_DATE = (2020, 6, 1, 12, 0, 0)   # dt_now() = BASE_DATE + (clock - T0)
SEC = 10**6
_REAL = {"Queue": asyncio.Queue, "sleep": asyncio.sleep, "wait_for": asyncio.wait_for, "current_task": asyncio.current_task,
         "get_running_loop": asyncio.get_running_loop, "gather": asyncio.gather, "wait": asyncio.wait}


# ------------------------------------------------------------------------------------------ scheduler
class _Wait:
    """await item from queue"""
    def __init__(self, q): self.q = q
    def __await__(self):
        while not self.q.items:
            yield self
        return self.q.items.pop(0)


class VQueue:
    def __init__(self, maxsize=0):
        self.items = []; self.getters = []      # tasks blocked in get()
    def _wake(self):
        env = Env.current
        while self.getters:
            t = self.getters.pop(0)
            if not t.done_ and t.waiting is not None:
                env._ready(t); break
    async def put(self, x): self.put_nowait(x)
    def put_nowait(self, x):
        self.items.append(x); self._wake()
    async def get(self): return await _Wait(self)
    def get_nowait(self):
        if not self.items: raise asyncio.QueueEmpty()
        return self.items.pop(0)
    def empty(self): return not self.items
    def qsize(self): return len(self.items)


def dur_us(d):
    """a duration handed to sleep()/wait_for() (int, float or exact rational VNum seconds) -> integer microseconds, rounded up"""
    if isinstance(d, vdt.VNum):
        return -((-d.n * SEC) // d.d)
    if isinstance(d, int):
        return d * SEC
    if isinstance(d, float) and not type(d) is float:
        raise RuntimeError("symbolic float duration: clock arithmetic must stay in VNum/int")
    import math
    return math.ceil(d * SEC)


def secs(us):
    """microseconds -> the value pyscript sees as `seconds`: an exact rational (int-backed, stays symbolic)"""
    return vdt.VNum(us, SEC)


class _Sleep:
    """wait until virtual time >= t (microseconds), or (if q) an item is available"""
    def __init__(self, env, t, q=None): self.env, self.t, self.q = env, t, q
    def __await__(self):
        first = self.q is None          # asyncio.sleep always yields at least once
        while True:
            if self.q is not None and self.q.items:
                return ("item", self.q.items.pop(0))
            if not first and self.env.now_us >= self.t:
                return ("timeout", None)
            first = False
            yield self


class VFuture:
    def __init__(self): self.done_ = False; self.res = None; self.exc = None; self.waiters = []; self.cbs = []; self.cancelled_ = False
    def done(self): return self.done_
    def cancelled(self): return self.cancelled_
    def _finish(self):
        env = Env.current
        for t in self.waiters:
            if not t.done_: env._ready(t)
        self.waiters = []
        for cb in self.cbs: env._call_soon(cb, self)
        self.cbs = []
    def set_result(self, r):
        if self.done_: raise asyncio.InvalidStateError()
        self.done_ = True; self.res = r; self._finish()
    def set_exception(self, e):
        if self.done_: raise asyncio.InvalidStateError()
        self.done_ = True; self.exc = e; self._finish()
    def cancel(self, msg=None):
        if self.done_: return False
        self.done_ = True; self.cancelled_ = True; self.exc = asyncio.CancelledError(); self._finish(); return True
    def exception(self):
        if self.cancelled_: raise asyncio.CancelledError()
        return self.exc
    def add_done_callback(self, cb, context=None):
        if self.done_: Env.current._call_soon(cb, self)
        else: self.cbs.append(cb)
    def remove_done_callback(self, cb):
        n = len(self.cbs); self.cbs = [c for c in self.cbs if c != cb]; return n - len(self.cbs)
    def result(self):
        if self.exc is not None: raise self.exc
        return self.res
    def __await__(self):
        while not self.done_:
            yield self
        return self.result()


class Task(VFuture):
    _n = 0
    def __init__(self, coro, name=""):
        super().__init__(); self.coro = coro; self.cancel_req = False; self.name = name; self.waiting = None; self.queued = False
        Task._n += 1; self.seq = Task._n
    def cancelled(self): return self.done_ and isinstance(self.exc, asyncio.CancelledError)
    def cancel(self, msg=None):
        if self.done_: return False
        self.cancel_req = True
        Env.current._ready(self)
        return True
    def get_name(self): return self.name
    def set_name(self, n): self.name = n
    def get_coro(self): return self.coro
    def __hash__(self): return id(self)
    def __eq__(self, o): return self is o
    def __repr__(self): return f"<VTask {self.seq} {self.name}>"


class Env:
    """virtual clock + asyncio-like FIFO ready queue (call_soon order)"""
    current = None
    def __init__(self):
        Env.current = self
        self.now_us = T0
        self.ready = deque(); self.tasks = []; self.cur = None; self.timers = []; self.chooser = None
        self.early = None            # optional callable() -> microseconds a timer may fire early (symbolic early wake-ups)
    # -- ready queue
    def _ready(self, t):
        if not t.queued and not t.done_:
            t.queued = True; self.ready.append(t)
    def _call_soon(self, cb, *a):
        self.ready.append((cb, a))
    def create_task(self, coro, name=""):
        t = Task(coro, name or getattr(coro, "__qualname__", "")); self.tasks.append(t); self._ready(t); return t
    def create_eager_task(self, coro, name=""):
        """Home Assistant (2024.x+) starts listener / service / created tasks eagerly: the coroutine runs at once, inside the caller,
        until its first real suspension (asyncio.Task(eager_start=True))."""
        t = Task(coro, name or getattr(coro, "__qualname__", "")); self.tasks.append(t)
        self._step(t)
        return t
    def _step(self, t):
        if t.done_: return
        prev_cur = self.cur
        self.cur = t
        w = t.waiting; t.waiting = None
        if isinstance(w, _Wait) and t in w.q.getters: w.q.getters.remove(t)
        if isinstance(w, _Sleep):
            if w.q is not None and t in w.q.getters: w.q.getters.remove(t)
            self.timers = [x for x in self.timers if x[2] is not t]
        if isinstance(w, VFuture) and t in w.waiters: w.waiters.remove(t)
        try:
            if t.cancel_req:
                t.cancel_req = False
                nw = t.coro.throw(asyncio.CancelledError())
            else:
                nw = t.coro.send(None)
        except StopIteration as e:
            t.done_ = True; t.res = e.value
        except (Exception, asyncio.CancelledError) as e:
            t.done_ = True; t.exc = e
            if _DEBUG and not isinstance(e, asyncio.CancelledError):
                import traceback
                print("TASK-EXC", t.name, "".join(traceback.format_exception(e))[-1800:], file=sys.stderr, flush=True)
        finally:
            self.cur = prev_cur
        if t.done_:
            t._finish(); return
        t.waiting = nw
        if isinstance(nw, _Wait):
            if nw.q.items: self._ready(t)
            else: nw.q.getters.append(t)
        elif isinstance(nw, _Sleep):
            if nw.q is not None and nw.q.items: self._ready(t)
            elif nw.q is None and not (nw.t > self.now_us): self._ready(t)      # sleep(0): one trip through the ready queue, as in asyncio
            else:
                if nw.q is not None: nw.q.getters.append(t)
                self.timers.append((nw.t, t.seq, t))
        elif isinstance(nw, VFuture):
            if nw.done_: self._ready(t)
            else: nw.waiters.append(t)
        elif nw is None:
            self._ready(t)          # bare yield (sleep(0))
        else:
            raise RuntimeError(f"task awaits unknown object {nw!r}")
    def settle(self, limit=20000):
        for _ in range(limit):
            if not self.ready: return
            if self.chooser is not None and len(self.ready) > 1:
                i = self.chooser(len(self.ready))
                self.ready.rotate(-i); x = self.ready.popleft(); self.ready.rotate(i)
            else:
                x = self.ready.popleft()
            if isinstance(x, tuple):
                cb, a = x
                try: cb(*a)
                except Exception as e: logging.getLogger("verif").error("callback raised %r", e)
                continue
            x.queued = False
            self._step(x)
        raise RuntimeError("livelock")
    @property
    def now(self): return secs(self.now_us)
    @property
    def t(self): return self.now_us - T0
    def _fire_due(self):
        due = sorted([x for x in self.timers if x[0] <= self.now_us], key=lambda x: (x[0], x[1]))
        for x in due:
            self._ready(x[2])
    def advance(self, t_rel):
        """advance virtual time to T0 + t_rel microseconds, firing timers in deadline order"""
        t_to = T0 + t_rel
        while True:
            self.settle()
            nxt = None
            for x in self.timers:
                if not x[2].done_ and x[0] <= t_to and (nxt is None or x[0] < nxt): nxt = x[0]
            if nxt is None: break
            if nxt > self.now_us: self.now_us = nxt
            self._fire_due(); self.settle()
        if t_to > self.now_us: self.now_us = t_to
        self._fire_due(); self.settle()
    # -- asyncio replacements
    def _early(self):
        return self.early() if self.early is not None else 0
    async def sleep(self, d, result=None):
        await _Sleep(self, self.now_us + dur_us(d) - self._early()); return result
    async def wait_for(self, aw, timeout):
        if isinstance(aw, (Task, VFuture)):
            raise RuntimeError("wait_for(task) not modelled")
        q = aw.cr_frame.f_locals["self"]; aw.close()
        if timeout is None:
            return await _Wait(q)
        kind, item = await _Sleep(self, self.now_us + dur_us(timeout) - self._early(), q)
        if kind == "timeout": raise asyncio.TimeoutError()
        return item
    async def gather(self, *aws, return_exceptions=False):
        out = []
        for a in aws: out.append(await a)
        return out
    async def wait(self, aws, timeout=None, return_when="ALL_COMPLETED"):
        aws = list(aws); deadline = None if timeout is None else self.now_us + dur_us(timeout)
        while True:
            done = {a for a in aws if a.done()}; pending = set(aws) - done
            if not pending or (return_when == "FIRST_COMPLETED" and done) or (deadline is not None and self.now_us >= deadline) \
               or (return_when == "FIRST_EXCEPTION" and any((not a.cancelled()) and a.exception() for a in done)):
                return done, pending
            if deadline is not None: await _Sleep(self, min(deadline, self.now_us + SEC))
            else:
                p = next(iter(sorted(pending, key=lambda t: t.seq)))
                try: await p
                except (Exception, asyncio.CancelledError): pass
    def monotonic(self): return secs(self.now_us)
    def dt_now(self):
        return vdt.datetime(*BASE_DATE) + vdt.timedelta._mk(self.now_us - T0)


# ------------------------------------------------------------------------------------------ stub Home Assistant
class CE:
    def __init__(self, data): self.data = data; self.entry_id = "verif"; self.options = {}
class States:
    def __init__(self, hass): self.d = {}; self.hass = hass
    def get(self, n): return self.d.get(n)
    def async_set(self, eid, value, attributes=None, force_update=False, context=None, **kw):
        old = self.d.get(eid)
        new = CoreState(eid, str(value), attributes or {}, context=context, validate_entity_id=False)
        if old is not None and old.state == new.state and old.attributes == new.attributes and not force_update:
            return
        self.d[eid] = new
        self.hass.bus.async_fire("state_changed", {"entity_id": eid, "old_state": old, "new_state": new}, context=context)
    def async_remove(self, eid, context=None):
        old = self.d.pop(eid, None)
        if old is None: return False
        self.hass.bus.async_fire("state_changed", {"entity_id": eid, "old_state": old, "new_state": None}, context=context)
        return True
    def async_all(self, domain=None): return [v for k, v in self.d.items() if domain is None or k.startswith(domain + ".")]
    def async_entity_ids(self, domain=None): return [k for k in self.d if domain is None or k.startswith(domain + ".")]
    def entity_ids(self, domain=None): return self.async_entity_ids(domain)
class Services:
    def __init__(self, hass): self.reg = {}; self.calls = []; self.hass = hass
    def has_service(self, d, s): return (d, s) in self.reg
    def async_register(self, d, s, cb, schema=None, supports_response=None, **kw): self.reg[(d, s)] = (cb, supports_response)
    def async_remove(self, d, s): self.reg.pop((d, s), None)
    def supports_response(self, d, s):
        from homeassistant.core import SupportsResponse
        r = self.reg.get((d, s))
        return (r[1] if r and r[1] is not None else SupportsResponse.NONE)
    def async_services(self):
        out = {}
        for (d, s) in self.reg: out.setdefault(d, {})[s] = None
        return out
    def async_services_for_domain(self, d): return {s: None for (dd, s) in self.reg if dd == d}
    async def async_call(self, d, s, data=None, blocking=False, context=None, target=None, return_response=False, **kw):
        from homeassistant.core import ServiceCall
        self.calls.append({"domain": d, "service": s, "data": dict(data or {}), "blocking": blocking, "context": context,
                           "return_response": return_response, "extra": kw, "target": target})
        r = self.reg.get((d, s))
        if r is None: return None
        try:
            call = ServiceCall(self.hass, d, s, data or {}, context, return_response)
        except TypeError:
            call = ServiceCall(d, s, data or {}, context, return_response)
        res = r[0](call)
        if asyncio.iscoroutine(res): res = await res
        return res if return_response else None          # (Home Assistant hands a response back only when it was asked for)
class Bus:
    def __init__(self, hass): self.l = {}; self.hass = hass; self.fired = []
    def async_listen(self, et, cb, *a, **k):
        self.l.setdefault(et, []).append(cb)
        def rm():
            self.l[et].remove(cb)
            if not self.l[et]: del self.l[et]
        return rm
    def async_listen_once(self, et, cb, *a, **k):
        box = []
        def once(ev):
            box[0](); return cb(ev)
        box.append(self.async_listen(et, once)); return box[0]
    def async_listeners(self): return {k: len(v) for k, v in self.l.items()}
    def async_fire(self, et, data=None, origin=None, context=None, **k):
        ev = HAEvent(et, data or {}, context=context)
        self.fired.append(ev)
        for cb in list(self.l.get(et, [])):
            r = cb(ev)
            if asyncio.iscoroutine(r): self.hass.env.create_eager_task(r, "listener:" + et)
class Loop:
    def __init__(self, env): self.env = env
    def create_task(self, coro, name=None, **k): return self.env.create_task(coro, name or "")
    def time(self): return self.env.monotonic()
    def create_future(self): return VFuture()
    def call_soon(self, cb, *a, **k): self.env._call_soon(cb, *a)
    def call_soon_threadsafe(self, cb, *a, **k): self.env._call_soon(cb, *a)
    def is_running(self): return True
class Cfg:
    latitude = 38; longitude = -122; elevation = 0; time_zone = "America/Los_Angeles"; config_dir = "/cfg"
    def path(self, *p): return "/cfg/" + "/".join(p) if p else "/cfg"
class Hass:
    def __init__(self, env, loop=None):
        self.env = env
        self.data = {}; self.states = States(self); self.services = Services(self); self.bus = Bus(self)
        self.loop = loop or Loop(env); self.config = Cfg(); self.is_running = True; self.is_stopping = False
        self.config_entries = types.SimpleNamespace(async_update_entry=lambda e, **kw: e.__dict__.update({k: v for k, v in kw.items()}),
                                                    async_entries=lambda d=None: [])
    async def async_add_executor_job(self, f, *a): return f(*a)
    def async_create_task(self, coro, name=None, eager_start=True):
        return self.env.create_eager_task(coro, name or "") if eager_start else self.env.create_task(coro, name or "")
    def async_create_background_task(self, coro, name=None, eager_start=True):
        return self.env.create_eager_task(coro, name or "") if eager_start else self.env.create_task(coro, name or "")
    def async_add_job(self, f, *a): return self.env.create_task(f(*a))


# ------------------------------------------------------------------------------------------ world
_MISSING = object()
CLASS_TABLES = None


def _reset_class_state():
    Function.hass = None; Function.task_reaper = None; Function.task_waiter = None; Function.task_reaper_q = None; Function.task_waiter_q = None
    for d in (Function.unique_task2name, Function.unique_name2task, Function.task2context, Function.task2cb, Function.service_cnt,
              Function.service2global_ctx, State.notify, State.notify_var_last, Event.notify, Event.notify_remove, GlobalContextMgr.contexts,
              Function.functions, Function.ast_functions):
        d.clear()
    Function.our_tasks.clear()
    for cls in (Mqtt, Webhook):
        for nm in ("notify", "notify_remove"):
            d = getattr(cls, nm, None)
            if isinstance(d, dict): d.clear()
    for nm in ("pyscript_persist", "persisted_vars"):
        d = getattr(State, nm, None)
        if isinstance(d, dict): d.clear()
    GlobalContextMgr.name_seq = 0


class World:
    """installs stubs, runs the real async_setup_entry on the stub hass; load() evaluates a script through the real load_file"""
    real = False
    def __init__(self, legacy, files=None, config=None, setup=True):
        self.env = Env(); self.hass = Hass(self.env)
        self._install(legacy, files, config, setup)

    def _patch(self, obj, name, val):
        old = obj.__dict__.get(name, _MISSING) if isinstance(obj, (types.ModuleType, type)) else getattr(obj, name, _MISSING)
        self.saved.append((obj, name, old)); setattr(obj, name, val)

    def _install(self, legacy, files, config, setup):
        env = self.env; self.saved = []
        patch = self._patch
        class TM:
            monotonic = staticmethod(env.monotonic)
            time = staticmethod(env.monotonic)
        if not self.real:
            patch(asyncio, "Queue", VQueue); patch(asyncio, "sleep", env.sleep); patch(asyncio, "wait_for", env.wait_for)
            patch(asyncio, "current_task", lambda loop=None: env.cur)
            patch(asyncio, "get_running_loop", lambda: self.hass.loop)
            patch(asyncio, "gather", env.gather); patch(asyncio, "wait", env.wait)
        if not self.real:
            patch(trigger, "dt", vdt); patch(dtiming, "dt", vdt)
            patch(trigger, "math", vdt.vmath)
        patch(trigger, "dt_now", env.dt_now); patch(dtiming, "dt_now", env.dt_now) if hasattr(dtiming, "dt_now") else None
        patch(trigger, "time", TM); patch(dtiming, "time", TM)
        async def nop(*a, **k): return None
        patch(pys, "watchdog_start", nop); patch(pys, "install_requirements", nop)
        async def no_yaml_change(*a, **k): return False
        patch(pys, "update_yaml_config", no_yaml_change)          # (reads configuration.yaml through Home Assistant's executor)
        async def no_desc(h): return {}
        import custom_components.pyscript.state as st, custom_components.pyscript.eval as ev, custom_components.pyscript.decorators.service as dsvc
        patch(st, "async_get_all_descriptions", no_desc)
        patch(ev, "async_set_service_schema", lambda *a, **k: None); patch(dsvc, "async_set_service_schema", lambda *a, **k: None)
        from .memfs import MemFS
        self.fs = MemFS(files or {})
        import custom_components.pyscript.global_ctx as gcm
        self.fs.files.setdefault("/cfg/pyscript/.keep", ["", 0.0])
        patch(pys, "os", self.fs.os_shim()); patch(pys, "glob", self.fs.glob_shim()); patch(pys, "open", self.fs.open)
        patch(gcm, "os", self.fs.os_shim()); patch(gcm, "open", self.fs.open)
        _reset_class_state()
        data = {"legacy_decorators": legacy, "allow_all_imports": False, "hass_is_global": False}
        data.update(config or {})
        self.entry = CE(data)
        if setup:
            self.run(pys.async_setup_entry(self.hass, self.entry))

    def run(self, coro):
        t = self.env.create_task(coro, "main")
        self.env.settle()
        if not t.done_: raise RuntimeError("main did not finish")
        return t.result()

    def load(self, name, src, start=True, extra=None):
        g = GlobalContext(name, global_sym_table={"__name__": name, **(extra or {})}, manager=GlobalContextMgr)
        self.run(GlobalContextMgr.load_file(g, "/cfg/pyscript/%s.py" % name.split(".")[-1], source=src))
        if start:
            g.set_auto_start(True); g.start()
        self.settle()
        return g

    def settle(self): self.env.settle()
    def advance(self, t): self.env.advance(t)
    @property
    def now(self): return self.env.now
    def do(self, fn):
        """run a harness action in event-loop context (so that eagerly started listener tasks behave as inside Home Assistant)"""
        return fn()
    def set_state(self, eid, value, attrs=None, context=None):
        self.do(lambda: self.hass.states.async_set(eid, value, attrs, context=context)); self.settle()
    def fire(self, et, data=None, context=None):
        self.do(lambda: self.hass.bus.async_fire(et, data, context=context)); self.settle()
    def call_service(self, d, s, data=None, **kw):
        t = self.env.create_task(self.hass.services.async_call(d, s, data, **kw), "svc")
        self.settle(); return t

    def close(self):
        # stop every context while the stubs are still installed (no pyscript __del__ may run later on stub objects)
        try:
            for name in list(GlobalContextMgr.contexts):
                try: GlobalContextMgr.delete(name)
                except Exception: pass
            self.settle()
        except Exception:
            pass
        for obj, name, val in reversed(self.saved):
            if val is _MISSING:
                try: delattr(obj, name)
                except AttributeError: pass
            else: setattr(obj, name, val)
        self.saved = []


# ------------------------------------------------------------------------------------------ real asyncio, virtual clock
class VSelector(selectors.DefaultSelector):
    def __init__(self): super().__init__(); self.vt = float(T0) / SEC
    def select(self, timeout=None):
        if timeout is not None and timeout > 0: self.vt += timeout
        return super().select(0)


class VLoop(asyncio.SelectorEventLoop):
    def __init__(self):
        self._vsel = VSelector(); super().__init__(self._vsel)
    def time(self): return self._vsel.vt


class RealEnv:
    def __init__(self):
        self.loop = VLoop(); self.chooser = None
    @property
    def now(self): return round(self.loop.time(), 6)
    @property
    def now_us(self): return int(round(self.loop.time() * SEC))
    @property
    def t(self): return self.now_us - T0
    early = None
    @property
    def cur(self):
        try: return asyncio.current_task(self.loop)
        except RuntimeError: return None
    def create_task(self, coro, name=""): return self.loop.create_task(coro)
    def create_eager_task(self, coro, name=""):
        try:
            asyncio.get_running_loop()
        except RuntimeError:
            return self.loop.create_task(coro)        # not inside the loop (harness call from outside): starts at the next iteration
        return asyncio.Task(coro, loop=self.loop, eager_start=True)
    def settle(self):
        self.loop.run_until_complete(self._drain())
    async def _drain(self):
        for _ in range(60): await _REAL["sleep"](0)
    def advance(self, t_rel):
        d = (T0 + t_rel - self.now_us) / SEC
        if d > 0: self.loop.run_until_complete(_REAL["sleep"](d))
        self.settle()
    def monotonic(self): return self.loop.time()
    def dt_now(self):
        import datetime as _rdt
        return _rdt.datetime(*BASE_DATE) + _rdt.timedelta(microseconds=self.now_us - T0)


class RealWorld(World):
    real = True
    def __init__(self, legacy, files=None, config=None, setup=True):
        self.env = RealEnv(); self.hass = Hass(self.env, loop=self.env.loop)
        asyncio.set_event_loop(self.env.loop)
        self._install(legacy, files, config, setup)
    def run(self, coro): return self.env.loop.run_until_complete(coro)
    def do(self, fn):
        async def _in_loop():
            return fn()
        return self.env.loop.run_until_complete(_in_loop())
    def call_service(self, d, s, data=None, **kw):
        t = self.env.loop.create_task(self.hass.services.async_call(d, s, data, **kw)); self.settle(); return t
    def close(self):
        try:
            World.close(self)
        finally:
            try:
                for t in asyncio.all_tasks(self.env.loop): t.cancel()
                self.env.loop.run_until_complete(_REAL["sleep"](0))
            except BaseException:
                pass
            self.env.loop.close()


def mkworld(legacy, **kw):
    return RealWorld(legacy, **kw) if ctx.REAL_LOOP else World(legacy, **kw)
